"""C11 clean() produces the whitespace normal form; word boundaries match it."""
import re
from analysis.engine import rule, AnchorMissing
from analysis import cfg
from analysis.facts import norm_path
from analysis.sym import sym, show_in, nosite, peel, core, walk, ret_values, args_of, guards_at, atoms_at, \
    variant_facts_at, cmp_facts_at, init_value, edge_guards, symbolizer, simplify, loop_source
from analysis.pat import match, Call, Cap, ANY, Pred, Const, has, chain_names
from rules.common import closure_of, V, receiver_var, local_defs, stores_to_local, state_locals

WS = 'unicode::Character::is_whitespace'


def _var(name):
    return Pred(lambda t: t[0] == 'var' and t[1] == name)


def _stores_to(b, name):
    out = []
    z = symbolizer(b)
    for s in b.stmts():
        if s.kind == 'assign' and not s.lhs.proj and b.var_name(s.lhs.local) == name:
            out.append((s, simplify(z.rvalue(s.rv, 0, ()))))
    return out


@rule('C11', 'R-C11-1', 'T11 SIBLING (one whitespace predicate)',
      'Character::is_whitespace is `str.chars().all(char::is_whitespace)` (Unicode White_Space, all code points) and clean, '
      'word_boundaries, remove, full take every whitespace decision from it')
def r1(ctx):
    cw = ctx.body(WS)
    rv = ret_values(cw)
    ok = len(rv) == 1 and match(core(rv[0][0]), Call('unicode::is_whitespace', ('field', ('arg', 1, ANY), 'str')))
    ctx.require(ok, cw, 'character-predicate', 'Character::is_whitespace(self) = unicode::is_whitespace(self.str) on every path',
                'Character::is_whitespace returns %s: characters are classified by something other than the Unicode White_Space '
                'property of all their code points' % [show_in(cw, v) for v, _ in rv])
    uw = ctx.body('unicode::is_whitespace')
    rv = ret_values(uw)
    from analysis.quant import quant_nf
    from analysis.seq import ITEM as _ITEM
    q = quant_nf(ctx.facts, uw, rv[0][0]) if len(rv) == 1 else None
    if q is None:
        from analysis.quant import quant_of_body
        q = quant_of_body(ctx.facts, uw)
    ok = q is not None and q[0] == 'all' and match(q[1], Call('str::chars', ('arg', 1, ANY))) and \
        match(core(q[2]), Call('char::methods::is_whitespace', _ITEM))
    ctx.require(ok, uw, 'unicode-predicate', 'unicode::is_whitespace(s) = s.chars().all(char::is_whitespace)',
                'unicode::is_whitespace is %s' % [show_in(uw, v) for v, _ in rv])
    from rules.common import closures_in
    for fn in ('text::clean', 'text::word_boundaries'):
        b = ctx.body(fn)
        ws = [t for x in [b] + closures_in(ctx, b) for t in x.calls(r'is_whitespace$|is_ascii_whitespace$')]
        # (unicode::is_whitespace is what Character::is_whitespace delegates to: the same predicate, checked above)
        bad = [t for t in ws if (t.callee_res() or '') not in (WS, 'unicode::is_whitespace')]
        ctx.require(bool(ws) and not bad, b, 'predicate|' + fn.rsplit('::', 1)[-1], '%s decides with Character::is_whitespace' % fn,
                    '%s uses %s' % (fn, [t.callee_res() for t in bad] or 'no whitespace predicate'))


@rule('C11', 'R-C11-2', 'T1 ORDER (clean)',
      'clean(): whitespace characters are skipped and only remembered; exactly one space is emitted before a '
      'non-whitespace character when whitespace was seen and the output is non-empty; every other character is appended '
      '(trimmed); the characters are visited in order')
def r2(ctx):
    b = ctx.body('text::clean')
    # every returned string is built from the Character sequence: the raw input is never returned (a shortcut that judges
    # "already clean" on its own keeps separators that are whitespace but not U+0020)
    for v, bb in ret_values(b):
        raw = [x for x in walk(init_value(b, v)) if isinstance(x, tuple) and x and x[0] == 'call' and x[2] and
               re.search(r'to_string$|to_owned$|String::from$|::into$|Cow', x[1]) and match(core(x[2][0]), ('arg', 1, ANY))]
        ctx.require(not raw, b, 'returns-built-output', 'clean() returns the string it built (line %d)' % b.blocks[bb].term.span['line'],
                    'clean() returns (a copy of) its raw input on some path (line %d): a separator that is whitespace but not a single space survives' % b.blocks[bb].term.span['line'],
                    b.blocks[bb].term.span)
    # the whole input is segmented once: cleaning piece by piece (per line, per chunk) and joining the results puts a separator next to
    # every EMPTY piece as well (a blank line gives two spaces in a row, a leading line break a leading space)
    from rules.common import closures_in, resolve_upvars
    for x in [b] + closures_in(ctx, b):
        for t in x.calls(r'CharString::new$'):
            a = core(sym(x, t.args[0]))
            if x is not b:
                a = core(resolve_upvars(ctx, x, a))
            while a[0] == 'call' and re.search(r'str::trim(_start|_end)?$', a[1]) and a[2]:
                a = core(a[2][0])      # trimming whitespace off the ends of the whole input does not change the result
            ctx.require(match(a, ('arg', 1, ANY)), b, 'segments-whole-input', 'clean() segments its whole input (line %d)' % t.span['line'],
                        'clean() segments `%s` (line %d), a piece of its input: the results of the pieces are joined with a separator even when a piece is empty, so the '
                        'output can contain consecutive or leading spaces' % (show_in(x, sym(x, t.args[0]))[:60], t.span['line']), t.span)
    nx = [t for t in b.calls(r'::next$')]
    if len(nx) != 1:
        raise AnchorMissing('iteration of clean()')
    src = loop_source(b, nx[0])
    ok = match(core(src), Call('CharString::chars', Call('CharString::new', ('arg', 1, ANY), ('arg', 2, ANY))))
    if not ok:
        # the same pass over the positions 0..cs.len() with cs.get(idx)
        from rules.common import range_bounds as _rb
        rb_ = _rb(src)
        ok = rb_ is not None and rb_[0] == 0 and not isinstance(rb_[1], int) and \
            match(core(rb_[1]), Call('CharString::len', Call('CharString::new', ('arg', 1, ANY), ('arg', 2, ANY))))
    ctx.require(ok, b, 'iteration', 'clean iterates CS::new(s, use_graphemes).chars() in order', 'clean iterates %s' % show_in(b, src), nx[0].span)
    loop = cfg.innermost_loop(b, nx[0].bb)
    ch = ('unwrap', nosite(sym(b, nx[0].dest)))
    is_ch = Pred(lambda t: nosite(core(t)) == nosite(core(ch)))
    # the text of the current character: `char.str`, or `cs.get(idx)` in the positional form; its whitespace test: Character::is_whitespace, or
    # the function it delegates to applied to that text
    TXT = Pred(lambda t: match(core(t), ('field', is_ch, 'str')) or match(core(t), Call('CharString::get', ANY, is_ch)))
    WSP = Pred(lambda t: match(t, Call(WS, is_ch)) or match(t, Call('unicode::is_whitespace', TXT)))
    lit = [t for t in b.calls(r'String::push$')]
    cp = [t for t in b.calls(r'String::push_str$')]
    ctx.require(len(lit) == 1 and len(cp) == 1, b, 'sinks', 'one literal push and one character push', 'pushes: %d literal, %d text' % (len(lit), len(cp)))
    if len(lit) != 1 or len(cp) != 1:
        return
    outv = receiver_var(b, cp[0])
    flags = state_locals(b, r'^bool$')
    if outv is None or receiver_var(b, lit[0]) != outv or len(flags) != 1:
        raise AnchorMissing('clean(): output string / whitespace flag (flags found: %d)' % len(flags))
    flag = flags[0]
    v = sym(b, lit[0].args[1])
    ctx.require(v[0] == 'const' and v[2] == 32, b, 'separator', 'the separator is a single space', 'separator is %s' % show_in(b, v), lit[0].span)
    atoms = [(core(t), pol) for t, pol, g in atoms_at(b, lit[0].bb)]
    ok = any(pol is True and match(t, V(flag)) for t, pol in atoms) and \
        any(pol is False and match(t, Call('String::is_empty', V(outv))) for t, pol in atoms) and \
        any(pol is False and match(t, WSP) for t, pol in atoms)
    ctx.require(ok, b, 'separator-guard', 'a space is emitted only under last_was_whitespace && !output.is_empty() before a non-whitespace char',
                'a space is emitted under %s' % [('' if pol else '!') + show_in(b, t)[:40] for t, pol in atoms], lit[0].span)
    a = core(sym(b, cp[0].args[1]))
    ok = match(a, Call('str::trim', TXT)) or match(a, TXT)
    ctx.require(ok, b, 'append-char', 'the character text (trimmed) is appended', 'appended: %s' % show_in(b, a), cp[0].span)
    atoms = [(core(t), pol) for t, pol, g in atoms_at(b, cp[0].bb)]
    ctx.require(any(pol is False and match(t, WSP) for t, pol in atoms), b, 'append-non-ws', 'only non-whitespace characters are appended', None, cp[0].span)
    # skip path: is_whitespace true edge reaches the latch without any push
    ws_true = [(g.block, g.target) for g in edge_guards(b) if g.atom()[1] is True and match(core(g.atom()[0]), WSP)]
    if not ws_true:
        raise AnchorMissing('is_whitespace branch of clean()')
    r = cfg.reach(b, ws_true[0][1], removed_blocks=[loop.header])
    ctx.require(lit[0].bb not in r and cp[0].bb not in r, b, 'skip-ws', 'whitespace characters append nothing', None)
    # every non-whitespace character is appended: from the false edge the push_str is unavoidable
    ws_false = [(g.block, g.target) for g in edge_guards(b) if g.atom()[1] is False and match(core(g.atom()[0]), WSP)]
    ok = bool(ws_false) and all(cfg.must_pass(b, ws_false[0][1], l, via_blocks=[cp[0].bb]) for l in loop.latches)
    ctx.require(ok, b, 'keep-non-ws', 'every non-whitespace character is appended', 'a non-whitespace character can be dropped')
    # flag discipline
    sets = stores_to_local(b, flag)
    trues = [s for s, val in sets if val[0] == 'const' and val[2] == 1]
    falses = [s for s, val in sets if val[0] == 'const' and val[2] == 0]
    ok = len(trues) == 1 and trues[0].bb in r and all(s.bb not in r for s in falses) and len(falses) >= 2
    ctx.require(ok, b, 'flag', 'last_was_whitespace is set only on the whitespace path and cleared after a character was appended', None)
    # the flag is cleared after the separator decision, on the append path
    ok = any(s.bb in loop.blocks and cfg.dominates(b, ws_false[0][1], s.bb) for s in falses)
    ctx.require(ok, b, 'flag-cleared', 'the flag is cleared on the non-whitespace path (no second space for the same run)', None)
    rv = ret_values(b)
    ctx.require(len(rv) == 1 and match(core(rv[0][0]), V(outv)), b, 'result', 'returns the accumulated output', None)
    # every character is visited: the scan is left only when the characters are exhausted (a length cap or an early exit drops the rest of the text)
    from rules.common import full_traversal
    full_traversal(ctx, b, Pred(lambda u: match(u, Call('CharString::chars', ANY)) or match(u, ('agg', 'adt', Pred(lambda n: n.endswith('Range::Range')), ANY))), 'scan-complete', 'clean')
    # ... and the output is only appended to
    for t in b.terms('call'):
        if not t.args or t.args[0].place is None or 'mut' not in b.local_ty(t.args[0].place.local):
            continue
        r_ = core(sym(b, t.args[0]))
        if r_[0] == 'var' and len(r_) > 2 and r_[2] == outv:
            n_ = (t.callee_res() or '').rsplit('::', 1)[-1]
            ctx.require(n_ in ('push', 'push_str', 'reserve', 'write_str', 'write_char', 'extend', 'shrink_to_fit', 'deref', 'deref_mut', 'as_mut_str'), b, 'output-append-only|' + n_,
                        'clean(): the output is only appended to (line %d: %s)' % (t.span['line'], n_),
                        'clean(): the output is modified by `%s` at line %d: characters already copied are removed or changed' % (n_, t.span['line']), t.span)


@rule('C11', 'R-C11-3', 'T13 PAIR (remove / full)',
      'remove(s) and full(s) filter the characters of s itself with !is_whitespace and join with "" resp. " "')
def r3(ctx):
    from analysis.seq import seq_of, seq_of_iter, ITEM
    from analysis.sym import const_str, defs_of
    # joining Characters goes through Display: it must print the text of the character verbatim
    dcands = [x for x in ctx.facts.bodies if x.path.endswith('::fmt') and x.impl_trait and norm_path(x.impl_trait).endswith('fmt::Display') and
              x.impl_self and norm_path(x.impl_self).startswith('unicode::Character')]
    if len(dcands) != 1:
        raise AnchorMissing('Display for Character (found %d)' % len(dcands))
    d = dcands[0]
    ctx.stats['bodies_inspected'].add(d.path)
    SELF_STR = ('field', ('arg', 1, ANY), 'str')
    outs = [t for t in d.calls(r'Argument::new_\w+$|Formatter::(write_str|pad|write_char)$|fmt::Display>::fmt$|fmt::Debug>::fmt$')]
    bad = []
    for t in outs:
        nm = (t.callee_res() or '')
        val = core(sym(d, t.args[1] if re.search(r'Formatter::', nm) else t.args[0]))
        if not (match(val, SELF_STR) and not re.search(r'new_debug|Debug>::fmt|new_lower|new_upper|write_char', nm)):
            bad.append((t, val))
    ctx.require(bool(outs) and not bad, d, 'display-verbatim', 'Display for Character writes self.str verbatim (whitespace::remove / full join Characters through it)',
                'Display for Character also prints `%s` (line %d): remove() / full() join Characters through Display, so their output is no longer made of the '
                'characters of the input' % (show_in(d, bad[0][1])[:80] if bad else '?', bad[0][0].span['line'] if bad else 0), bad[0][0].span if bad else None)
    SRC = Call('CharString::chars', Call('CharString::new', ('arg', 1, ANY), ('arg', 2, ANY)))
    notws = lambda conds: len(conds) == 1 and conds[0][1] is False and match(core(conds[0][0]), Call(WS, ITEM))
    isel = lambda e: core(e) == ITEM or core(e) == ('field', ITEM, 'str')
    for fn, sep in (('whitespace::remove', ''), ('whitespace::full', ' ')):
        b = ctx.body(fn)
        rv = ret_values(b)
        if len(rv) != 1:
            raise AnchorMissing('single result of %s' % fn)
        t = peel(rv[0][0])
        ok, why = False, 'is %s' % show_in(b, rv[0][0])[:160]
        if t[0] == 'call' and t[1].endswith('Itertools::join') and len(t[2]) == 2:
            segs = seq_of_iter(ctx.facts, b, t[2][0])
            ok = segs is not None and len(segs) == 1 and segs[0].kind == 'each' and match(core(segs[0].src), SRC) and notws(segs[0].conds) and isel(segs[0].elem)
            why = 'joins %s' % [repr(x)[:120] for x in segs or ()]
            if ok:
                ok = const_str(t[2][1]) == sep
                why = 'separator is %s' % show_in(b, t[2][1])
        else:
            segs = seq_of(ctx.facts, b, rv[0][0])
            if segs is None or len(segs) != 1 or not match(core(segs[0].src or ()), SRC):
                raise AnchorMissing('%s: neither a filter/join chain nor a single loop over CS::new(s, use_graphemes).chars()' % fn)
            sg = segs[0]
            why = 'builds %r' % sg
            if sg.kind == 'each':
                ok = sep == '' and notws(sg.conds) and isel(sg.elem)
            elif sg.kind == 'nest' and notws(sg.conds):
                # separator idiom: `if !is_first { out.push(sep) }; is_first = false; out.push_str(c.str)`
                inner = sg.inner
                seps = [x for x in inner if x.kind == 'one' and core(x.elem)[0] == 'const']
                els = [x for x in inner if x.kind == 'one' and isel(x.elem) and not x.conds]
                ok = len(inner) == 2 and len(seps) == 1 and len(els) == 1 and inner.index(seps[0]) < inner.index(els[0])
                if ok:
                    cv = core(seps[0].elem)
                    ok = (cv[2] == ord(sep) if len(cv) > 2 and isinstance(cv[2], int) else const_str(seps[0].elem) == sep)
                    cd = seps[0].conds
                    outv = core(rv[0][0])
                    if ok and len(cd) == 1 and cd[0][1] is False and match(core(cd[0][0]), Call('String::is_empty', Pred(lambda u: core(u) == outv))) and outv[0] == 'var':
                        # `if !out.is_empty() { out.push_str(sep) }`: "something was pushed before" -- every element pushed is the text of a
                        # Character, which is never empty, so this is "not the first element"
                        ctx.require(True, b, 'shape|' + fn.rsplit('::', 1)[-1], '%s = the non-whitespace characters of CS::new(s) joined with "%s"' % (fn, sep), None)
                        continue
                    ok = ok and len(cd) == 1 and cd[0][1] is False and core(cd[0][0])[0] == 'var'
                    if ok:
                        fl = core(cd[0][0])[2]
                        whole, partial = defs_of(b, fl)
                        vals = sorted(str(getattr(d_, 'rv', None) and core(sym(b, d_.rv.ops[0]))[1:3]) for d_ in whole if hasattr(d_, 'rv') and d_.rv.ops)
                        ok = len(whole) == 2 and not partial and any('true' in v_ for v_ in vals) and any('false' in v_ for v_ in vals) and \
                            all(cfg.dominates(b, els[0].term.bb, d_.bb) or cfg.dominates(b, d_.bb, els[0].term.bb) for d_ in whole)
        ctx.require(ok, b, 'shape|' + fn.rsplit('::', 1)[-1], '%s = the non-whitespace characters of CS::new(s) joined with "%s"' % (fn, sep),
                    '%s %s (the characters of the input itself must be filtered with !is_whitespace and joined with "%s")' % (fn, why, sep))


@rule('C11', 'R-C11-4', 'T13 PAIR (word_boundaries)',
      'word_boundaries(): a word starts at the first non-whitespace character after whitespace/start, ends at the next '
      'whitespace character, and a trailing word ends at the number of characters')
def r4(ctx):
    b = ctx.body('text::word_boundaries')
    # positions are counted in Characters of CS::new(s, use_graphemes): nothing pushed is measured on the raw string
    for t in b.calls(r'Vec::push$'):
        v = init_value(b, sym(b, t.args[1]))
        raw = [x for x in walk(v) if isinstance(x, tuple) and x and x[0] == 'call' and x[2] and not x[1].endswith('CharString::new') and
               match(core(x[2][0]), ('arg', 1, ANY))]
        ctx.require(not raw, b, 'positions-in-characters', 'the range pushed at line %d is measured in Characters' % t.span['line'],
                    'the range pushed at line %d uses `%s` of the raw string: with graphemes a cluster of several code points (CRLF, combining marks) '
                    'counts more than once, the range ends past the character sequence' % (t.span['line'], raw[0][1].rsplit('::', 2)[-2] + '::' + raw[0][1].rsplit('::', 1)[-1] if raw else ''), t.span)
    nx = [t for t in b.calls(r'::next$')]
    if len(nx) != 1:
        raise AnchorMissing('iteration of word_boundaries()')
    src = loop_source(b, nx[0])
    ok = match(core(src), Call('Iterator::enumerate', Call('CharString::chars', Call('CharString::new', ('arg', 1, ANY), ('arg', 2, ANY)))))
    ctx.require(ok, b, 'iteration', 'iterates CS::new(s).chars().enumerate()', 'iterates %s' % show_in(b, src), nx[0].span)
    loop = cfg.innermost_loop(b, nx[0].bb)
    item = ('unwrap', nosite(sym(b, nx[0].dest)))
    idx = Pred(lambda t: nosite(core(t)) == nosite(core(('field', item, 0))))
    chp = Pred(lambda t: nosite(core(t)) == nosite(core(('field', item, 1))))
    pushes = [t for t in b.calls(r'Vec::push$')]
    inl = [t for t in pushes if t.bb in loop.blocks]
    out = [t for t in pushes if t.bb not in loop.blocks]
    ctx.require(len(inl) == 1 and len(out) == 1, b, 'pushes', 'one push inside the scan, one for the trailing word', 'pushes: %d in loop, %d after' % (len(inl), len(out)))
    if len(inl) != 1 or len(out) != 1:
        return
    starts = state_locals(b, r'^std::option::Option<usize>$')
    counters = [l for l in state_locals(b, r'^usize$') if any(match(core(v_), ('bin', 'Add', V(l), Const(1))) for _, v_ in stores_to_local(b, l))]
    if len(starts) != 1 or len(counters) != 1:
        raise AnchorMissing('word_boundaries(): open-word marker / character counter (found %d / %d)' % (len(starts), len(counters)))
    start, cnt = starts[0], counters[0]
    v = core(sym(b, inl[0].args[1]))
    atoms = [(core(t), pol) for t, pol, g in atoms_at(b, inl[0].bb)]
    vfs = variant_facts_at(b, inl[0].bb)
    ok = v[0] == 'agg' and len(v[3]) == 2 and match(v[3][1], idx) and has(v[3][0], V(start))
    ok = ok and any(pol is True and match(t, Call(WS, chp)) for t, pol in atoms) and any(match(core(t), V(start)) and n == {'Some'} for t, n in vfs)
    ctx.require(ok, b, 'close-word', 'a word (start, idx) is closed at a whitespace character when a word is open', None, inl[0].span)
    st = stores_to_local(b, start)
    opens = [(s, val) for s, val in st if s.bb in loop.blocks and val[0] == 'agg' and val[2].endswith('Option::Some')]
    ok = len(opens) == 1 and match(core(opens[0][1][3][0]), idx)
    if ok:
        atoms = [(core(t), pol) for t, pol, g in atoms_at(b, opens[0][0].bb)]
        vfs = variant_facts_at(b, opens[0][0].bb)
        ok = any(pol is False and match(t, Call(WS, chp)) for t, pol in atoms) and any(match(core(t), V(start)) and n == {'None'} for t, n in vfs)
    ctx.require(ok, b, 'open-word', 'a word is opened (start = Some(idx)) at a non-whitespace character when none is open', None)
    closes = [(s, val) for s, val in st if s.bb in loop.blocks and val[0] == 'agg' and val[2].endswith('Option::None')]
    ok = len(closes) == 1 and cfg.dominates(b, inl[0].bb, closes[0][0].bb)
    ctx.require(ok, b, 'reset-after-close', 'start is reset to None after a word was closed', None)
    v = core(sym(b, out[0].args[1]))
    ok = v[0] == 'agg' and len(v[3]) == 2 and match(v[3][1], V(cnt)) and has(v[3][0], V(start)) and any(match(core(t), V(start)) and n == {'Some'} for t, n in variant_facts_at(b, out[0].bb))
    ctx.require(ok, b, 'trailing-word', 'the trailing word is (start, number of characters)', 'trailing word is %s' % show_in(b, v), out[0].span)
    # ... and it is pushed whenever a word is still open: the only other test allowed in front of the push is the vacuous `start < num_elements`
    extra = []
    for t_, pol_, g_ in atoms_at(b, out[0].bb):
        if g_.block in loop.blocks:
            continue
        c_ = core(t_)
        if t_[0] == 'discr' or c_[0] == 'discr' or (c_[0] == 'call' and c_[1].rsplit('::', 1)[-1] in ('is_some', 'is_none') and has(c_, V(start))):
            continue    # the test that a word is open
        def is_start(u):
            u = core(u)
            while isinstance(u, tuple) and u and (u[0] == 'unwrap' or (u[0] == 'field' and isinstance(u[1], tuple) and u[1] and u[1][0] == 'variant')):
                u = core(u[1] if u[0] == 'unwrap' else u[1][1])
            return match(u, V(start))
        vac = pol_ is True and ((c_[0] == 'bin' and c_[1] == 'Lt' and is_start(c_[2]) and match(core(c_[3]), V(cnt))) or
                                (c_[0] == 'bin' and c_[1] == 'Gt' and match(core(c_[2]), V(cnt)) and is_start(c_[3])))
        if not vac:
            extra.append(('' if pol_ else '!') + show_in(b, t_)[:60])
    ctx.require(not extra, b, 'trailing-word-unconditional', 'an open word at the end of the text is always reported',
                'the trailing word is reported only under %s: a last word (e.g. of one character) can be lost' % extra, out[0].span)
    from rules.common import full_traversal
    full_traversal(ctx, b, Call('CharString::chars', ANY), 'scan-complete', 'word_boundaries')
    cnts = stores_to_local(b, cnt)
    inc = [(s, val) for s, val in cnts if s.bb in loop.blocks]
    ok = len(inc) == 1 and match(core(inc[0][1]), ('bin', 'Add', V(cnt), Const(1))) and \
        all(cfg.must_pass(b, loop.header, l, via_blocks=[inc[0][0].bb], from_succ=True) for l in loop.latches)
    ctx.require(ok, b, 'count', 'num_elements counts every character', None)


@rule('C11', 'R-C11-5', 'T11 SIBLING (one segmentation)',
      'every CharString::new of the normal form code receives the caller\'s grapheme flag unchanged (a parameter, configuration field or '
      'captured variable): a site that "optimises" the flag (e.g. `use_graphemes && !s.is_ascii()`) segments "\\r\\n" and friends '
      'differently from the sites it must agree with')
def r_segflag(ctx):
    from rules.common import check_segmentation_flag
    n = check_segmentation_flag(ctx, [ctx.body(n) for n in ['text::clean', 'text::word_boundaries', 'whitespace::remove', 'whitespace::full']], 'normal form')
    if n == 0:
        raise AnchorMissing('CharString::new sites of the normal form code')


def charstring_primitive(ctx):
    """the shared segmentation primitive CharString::new: exactly two ways to segment, chosen by the flag alone, lengths kept at
    full width (shared by the properties that are stated over characters / grapheme clusters)"""
    from analysis.alts import expand, flatten
    from rules.common import narrowing_casts, closures_in
    b = ctx.body('unicode::CharString::new')
    rle = [t for t in b.calls(r'run_length_encode$')]
    if len(rle) != 1:
        raise AnchorMissing('run_length_encode(&cluster_lengths) in CharString::new')
    al = flatten(expand(ctx.facts, b, nosite(sym(b, rle[0].args[0]))))
    table = {}
    extra = []
    for a in al:
        flag = [pol for tt, pol in a.atoms if match(core(tt), ('arg', 2, ANY))]
        other = [tt for tt, pol in a.atoms if not match(core(tt), ('arg', 2, ANY))] + [tt for tt, n in a.variants]
        v = core(a.value)
        if other or len(flag) != 1:
            extra.append(a)
            continue
        table[flag[0]] = v
    SEGCALL = Pred(lambda u: isinstance(u, tuple) and u and u[0] == 'call' and
                   re.search(r'(graphemes|grapheme_indices|str::chars|str::char_indices|str::bytes|str::as_bytes)$', u[1]) is not None)
    third = [a for a in extra if [tt for tt, pol in a.atoms if not match(core(tt), ('arg', 2, ANY))] or a.variants]
    if not third and set(table) != {True, False}:
        direct = [a for a in extra if has(core(a.value), SEGCALL)]
        if not direct:
            # the lengths are not a two-way choice of segmentations at this level (derived from cluster start offsets, built incrementally,
            # ...): a constructor of another shape
            raise AnchorMissing('CharString::new: the cluster lengths as a direct choice between graphemes(true) and chars() on the flag')
    ctx.require(not extra and set(table) == {True, False}, b, 'two-segmentations', 'CharString::new segments in exactly two ways, selected by use_graphemes alone',
                'CharString::new has a segmentation path selected by something else than the flag (%s): e.g. an ASCII fast path counts "\\r\\n" as two characters in '
                'grapheme mode' % [repr(x)[:100] for x in extra][:2], rle[0].span)
    if set(table) == {True, False}:
        okg = has(table[True], Call('graphemes', ('arg', 1, ANY), Const(1))) and has(table[True], ('fn', Pred(lambda n: n.endswith('str::len'))))
        okc = has(table[False], Call('str::chars', ('arg', 1, ANY))) and has(table[False], ('fn', Pred(lambda n: n.endswith('len_utf8'))))
        ctx.require(okg, b, 'grapheme-lengths', 'grapheme mode: byte lengths of str.graphemes(true)', 'grapheme mode: %s' % show_in(b, table[True])[:100])
        ctx.require(okc, b, 'codepoint-lengths', 'code point mode: len_utf8 of str.chars()', 'code point mode: %s' % show_in(b, table[False])[:100])
    n = 0
    for fn in ('unicode::CharString::new', 'unicode::CharString::byte_start_end', 'unicode::CharString::get_char_byte_lengths', 'utils::run_length_encode', 'utils::run_length_decode'):
        x0 = ctx.body(fn)
        for x in [x0] + closures_in(ctx, x0):
            for s_, f_, t_ in narrowing_casts(x):
                if s_.span['exp']:
                    continue
                n += 1
                ctx.fail(x, 'narrowing|%s->%s' % (f_, t_), 'a cluster length / count is narrowed from %s to %s at line %d of %s: a grapheme cluster of 256 bytes or more wraps and every later '
                         'character starts at the wrong byte' % (f_, t_, s_.span['line'], fn), s_.span)
    # who may segment: grapheme clusters are computed in src/unicode.rs only. A second site (`s.graphemes(false).count()` "because only the
    # number is needed") is a second definition of "character": legacy and extended clusters differ on spacing marks, so its counts
    # disagree with every index CharString hands out
    seg = 0
    for x in ctx.facts.bodies:
        if not x.file().startswith('src/') or x.span['exp']:
            continue
        for t in x.calls(r'UnicodeSegmentation::(graphemes|grapheme_indices|split_word_bounds|unicode_words)$|::graphemes$|::grapheme_indices$'):
            seg += 1
            ctx.require(x.file() == 'src/unicode.rs', x, 'segmentation-owner|' + norm_path(x.path).rsplit('::', 1)[-1],
                        'grapheme segmentation at %s:%d is inside src/unicode.rs' % (x.file(), t.span['line']),
                        '%s (%s:%d) segments text into grapheme clusters itself (`%s`) instead of going through CharString: two definitions of "character" that '
                        'disagree on some texts (legacy vs extended clusters, CRLF)' % (norm_path(x.path), x.file(), t.span['line'], (t.callee_res() or '').rsplit('::', 1)[-1]), t.span)
    if seg < 1:
        raise AnchorMissing('calls to UnicodeSegmentation::graphemes in the crate')
    # positions: byte_start_end / char_range_to_byte_range / get / sub agree with the stored cluster lengths (C16 states this as its own rule)
    if ctx.prop != 'C16':
        from rules.c16 import charstring_positions, run_length_table
        charstring_positions(ctx)
        run_length_table(ctx)
    adt = ctx.facts.adts.get('unicode::CharString')
    tys = [fl['ty'] for v in (adt['variants'] if adt else ()) for fl in v['fields'] if fl['name'] == 'rle_cluster_lengths']
    ctx.require(bool(tys) and '(usize, usize)' in tys[0], b, 'length-width', 'cluster lengths are stored as usize', 'cluster lengths are stored as %s' % tys)


@rule('C11', 'R-C11-6', 'T15 TYPE / T4 (the segmentation primitive)',
      'CharString::new segments the text by graphemes(true) when use_graphemes is set and by chars() otherwise -- no third path '
      '(no ASCII shortcut: "\\r\\n" is one cluster) -- and byte lengths are never narrowed')
def r6(ctx):
    charstring_primitive(ctx)


ASCII_WS = re.compile(r'ascii_whitespace|trim_ascii')


@rule('C11', 'R-C11-7', 'T10 WHO (no ASCII-only whitespace classifier in the normal form code)',
      'clean, word_boundaries, whitespace::remove, whitespace::full, Character::is_whitespace and unicode::is_whitespace (and their closures) '
      'neither call nor pass along an ASCII-only whitespace classifier (split_ascii_whitespace, is_ascii_whitespace, trim_ascii*): ASCII '
      'whitespace is a strict subset of Unicode White_Space even for pure ASCII text (U+000B vertical tab), so a fast path built on it '
      'keeps a separator the normal form must collapse')
def r7(ctx):
    from rules.common import closures_in
    n = 0
    for fn in ('text::clean', 'text::word_boundaries', 'whitespace::remove', 'whitespace::full', WS, 'unicode::is_whitespace'):
        b0 = ctx.body(fn)
        for b in [b0] + closures_in(ctx, b0):
            n += 1
            hits = []
            for t in b.calls():
                if any(ASCII_WS.search(nm) for nm in t.callee_names()):
                    hits.append((t.span, [nm for nm in t.callee_names() if ASCII_WS.search(nm)][0]))
                for o in t.args:
                    if o.fn_name() and ASCII_WS.search(o.fn_name()):
                        hits.append((t.span, o.fn_name()))
            for s in b.stmts():
                if s.kind == 'assign':
                    for o in s.rv.ops:
                        if o.fn_name() and ASCII_WS.search(o.fn_name()):
                            hits.append((s.span, o.fn_name()))
            ctx.require(not hits, b, 'no-ascii-whitespace|' + b.path.split('::', 1)[-1], '%s uses no ASCII-only whitespace classifier' % b.path,
                        '%s classifies whitespace with %s (line %d): U+000B is Unicode White_Space but not ASCII whitespace, the normal form '
                        'keeps it' % (b.path, hits[0][1] if hits else '', hits[0][0]['line'] if hits else 0), hits[0][0] if hits else None)
    if n < 6:
        raise AnchorMissing('normal form functions')
