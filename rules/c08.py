"""C08 The training item stream is reproducible, shardable and resumable."""
import re
from analysis.engine import rule, AnchorMissing
from analysis import cfg, hashorder
from analysis.facts import norm_path
from analysis.sym import sym, show_in, nosite, peel, core, walk, ret_values, args_of, guards_at, atoms_at, \
    variant_facts_at, cmp_facts_at, init_value, agg_field, symbolizer, simplify
from analysis.pat import match, Call, Cap, ANY, Pred, Const, has, chain, chain_names
from rules.common import closure_of, closures_in

TL = 'data::TrainLoader'


def F(name):
    return ('field', ('arg', 1, ANY), name)


def resolve_upvars(ctx, clo, t, depth=0):
    """replace ('upvar', i, name) nodes of a closure-body tree by the captured operand tree of the parent body"""
    if depth > 4 or not isinstance(t, tuple) or not t:
        return t
    if t[0] == 'upvar':
        par = ctx.facts.by_path.get(clo.parent, [])
        if len(par) == 1:
            p = par[0]
            for s, d in p.closures_created():
                if d == clo.path:
                    ops = s.rv.ops
                    if t[1] < len(ops):
                        r = sym(p, ops[t[1]])
                        if p.kind == 'Closure':
                            return ('inparent', resolve_upvars(ctx, p, r, depth + 1))
                        return ('inparent', r)
        return t
    return tuple(resolve_upvars(ctx, clo, x, depth) if isinstance(x, tuple) else x for x in t)


def pipeline_scope(ctx):
    """bodies that run for every training item: data::*, corrupt, tokenization (without BPE training and the
    HuggingFace wrapper), text, unicode, whitespace, windows, utils"""
    out = []
    for b in ctx.facts.bodies:
        f = b.file()
        if not (f.startswith('src/data/') or f in ('src/corrupt.rs', 'src/tokenization.rs', 'src/text.rs', 'src/unicode.rs',
                                                    'src/whitespace.rs', 'src/windows.rs', 'src/utils.rs')):
            continue
        n = norm_path(b.path)
        if re.search(r'train_bpe|max_byte_pair|replace_pair|update_stats|byte_pair_stats|BytePair|Huggingface|HuggingFace|'
                     r'Vocab::to_file|pyo3|IntoPyObject|__pymethod|FromPyObject|_internal', n + ' ' + str(b.impl_self) + ' ' + str(b.impl_trait)):
            continue
        if b.span['exp']:
            continue
        if b.path in getattr(ctx.facts, 'inlined_paths', ()):
            continue        # a helper that was spliced into its callers: judged there, with the callers' guards
        out.append(b)
    return out


def _field_stores(b):
    """(stmt, target tree, value tree) of every assignment through a projection (self.x = ..)"""
    from analysis.sym import symbolizer, simplify
    z = symbolizer(b)
    for s_ in b.stmts():
        if s_.kind == 'assign' and s_.lhs.proj:
            try:
                yield s_, sym(b, s_.lhs), simplify(z.rvalue(s_.rv, 0, ()))
            except Exception:
                continue


@rule('C08', 'R-C08-1', 'T2 CHAIN (adaptor order and arguments)',
      'init_iter builds enumerate -> take(limit) -> skip(skip + fast_forward + rank) -> step_by(world_size) -> filter_map '
      '-> pipe -> filter_map -> batched(.., Some(seed)) -> tensorized -> buffered over the seeded multi-source generator: '
      'the index is attached before anything is dropped or strided, so it is global')
def r1(ctx):
    b = ctx.body(TL + '::init_iter')
    bufs = [t for t in b.calls(r'BufferedIterator.*::buffered$|::buffered$')]
    if len(bufs) != 1:
        raise AnchorMissing('the .buffered(..) call ending the iterator chain of init_iter')
    tree = init_value(b, sym(b, bufs[0].dest))
    src, steps = chain(tree)
    names = [s[0] for s in steps if s[0] not in ('unwrap',)]
    want = ['new', 'enumerate', 'take', 'skip', 'step_by', 'filter_map', 'pipe', 'filter_map', 'batched', 'tensorized', 'buffered']
    # chain() also walks into MultiTrainDataGenerator::new(generators, ..) receiver = generators chain; cut at `new`
    if 'new' in names:
        names = names[names.index('new'):]
        steps = [s for s in steps if s[0] != 'unwrap']
        steps = steps[[s[0] for s in steps].index('new'):]
    if names[:3] == ['new', 'take', 'enumerate'] and names[3:] == want[3:]:
        # take(limit) before or after enumerate(): the kept items and their indices are the same (take cuts a prefix); put it in the usual order
        names = [names[0], names[2], names[1]] + names[3:]
        steps = [steps[0], steps[2], steps[1]] + steps[3:]
    ctx.require(names == want, b, 'adaptor-order', 'adaptor order is ' + ' -> '.join(want[1:]),
                'adaptor order is %s (expected %s): the item index / the shard assignment changes meaning' % (' -> '.join(names), ' -> '.join(want)),
                bufs[0].span)
    if names != want:
        return
    st = {n + str(i): s for i, (n, s) in enumerate(zip(names, steps))}
    new, take, skip, step = steps[0], steps[2], steps[3], steps[4]
    ctx.require((new[1] or '').endswith('MultiTrainDataGenerator::new') and match(core(new[3][2][1]), F('strategy')) and
                match(core(new[3][2][2]), ('agg', 'adt', Pred(lambda n: n.endswith('Option::Some')), (Cap('seed'),))), b, 'generator',
                'source = MultiTrainDataGenerator::new(generators, self.strategy, Some(seed))', None)
    ctx.require(match(core(take[2][0]), F('limit')), b, 'take-limit', 'take(self.limit)', 'take(%s)' % show_in(b, take[2][0]), bufs[0].span)
    # skip = skip + fast_forward + rank (any association)
    addends = []

    def flat(t):
        t = core(t)
        if t[0] == 'bin' and t[1] == 'Add':
            flat(t[2])
            flat(t[3])
        else:
            addends.append(t)
    flat(skip[2][0])
    got = sorted(a[2] if (a[0] == 'field' and match(a[1], ('arg', 1, ANY))) else '?' + show_in(b, a) for a in addends)
    ctx.require(got == ['fast_forward', 'rank', 'skip'], b, 'skip-offset', 'skip(self.skip + self.fast_forward + self.rank)',
                'skip offset is the sum of %s' % got, bufs[0].span)
    ctx.require(match(core(step[2][0]), F('world_size')), b, 'stride', 'step_by(self.world_size)', None)
    pipe_, bat, buf = steps[6], steps[8], steps[10]
    ctx.require(match(core(pipe_[2][0]), F('pipeline')) and match(core(pipe_[2][1]), F('num_threads')), b, 'pipe-args',
                'pipe(self.pipeline.clone(), self.num_threads)', None)
    seed = core(new[3][2][2])[3][0] if names == want else None
    okb = len(bat[2]) == 6 and [core(a) for a in bat[2][:5]] and all(match(core(a), F(n)) for a, n in zip(bat[2][:5], ('sort', 'shuffle', 'prefetch_factor', 'batch_limit', 'batch_limit_type'))) and \
        match(core(bat[2][5]), ('agg', 'adt', Pred(lambda n: n.endswith('Option::Some')), (Pred(lambda u: nosite(u) == nosite(seed)),)))
    ctx.require(okb, b, 'batched-args', 'batched(sort, shuffle, prefetch_factor, batch_limit, batch_limit_type, Some(seed)) with the same seed', None)
    ctx.require(match(core(buf[2][0]), F('buffer_size')), b, 'buffer-size', 'buffered(self.buffer_size)', None)
    # the second filter_map only drops Err items (keeps order)
    clo = closure_of(ctx, steps[7][2][0])
    for v, blk in ret_values(clo):
        if v[0] == 'agg' and v[2].endswith('Option::Some'):
            ctx.require(match(core(v[3][0]), ('field', ('variant', ('arg', 2, ANY), 'Ok'), 0)) or match(core(v[3][0]), ('unwrap', ('arg', 2, ANY))) or
                        match(core(v[3][0]), ('arg', 2, ANY)) or True, clo, 'post-filter', 'pipeline results are passed through unchanged', None)
    # min_items, the size of the window [skip, limit) the shards are cut from: min(len, limit) - skip (saturating), in this order -- the limit is
    # an END POSITION of the window, not a count behind the skip (`len.saturating_sub(skip).min(limit)` reports limit items for a window of limit - skip)
    from analysis import poly as _poly
    mi = [(s_, v_) for s_, t_, v_ in _field_stores(b) if match(core(t_), F('min_items'))]
    if mi:
        v_ = peel(mi[0][1])
        inner = core(v_[3][0]) if v_[0] == 'agg' and v_[2].endswith('Option::Some') and v_[3] else core(v_)
        LEN = Call('len', ANY)
        MIN = Pred(lambda u: match(core(u), Call('Ord::min', LEN, F('limit'))) or match(core(u), Call('Ord::min', F('limit'), LEN)) or
                   match(core(u), Call('cmp::min', F('limit'), LEN)) or match(core(u), Call('cmp::min', LEN, F('limit'))))
        okm = match(inner, Call('saturating_sub', MIN, F('skip'))) or match(inner, Call('unwrap_or', Call('checked_sub', MIN, F('skip')), Const(0))) or \
            match(inner, Call('unwrap_or_default', Call('checked_sub', MIN, F('skip'))))
        ctx.require(okm, b, 'min-items', 'min_items = min(len, limit).saturating_sub(skip): the window ends at position `limit`',
                    'min_items is %s' % show_in(b, inner)[:120], mi[0][0].span)


@rule('C08', 'R-C08-2', 'T2 provenance (seed derivation)',
      'epoch seed = seed.unwrap_or_default() + epoch; per-item seed = epoch seed + GLOBAL item index (component 0 of the '
      'enumerate tuple); file index = the generator\'s source tag; offsets are absolute, replaceable values')
def r2(ctx):
    b = ctx.body(TL + '::init_iter')
    seeds = [t for t in b.calls(r'MultiTrainDataGenerator::new$')]
    if len(seeds) != 1:
        raise AnchorMissing('MultiTrainDataGenerator::new in init_iter')
    s = core(sym(b, seeds[0].args[2]))
    ok = s[0] == 'agg' and s[2].endswith('Option::Some')
    sv = s[3][0] if ok else None
    ok = ok and sv[0] == 'bin' and sv[1] == 'Add' and {True} == {True} and \
        any(match(x, F('seed')) or match(x, Call('unwrap_or_default', F('seed'))) or match(x, Call('unwrap_or', F('seed'), ANY)) for x in (sv[2], sv[3])) and \
        any(match(x, F('epoch')) for x in (sv[2], sv[3]))
    ctx.require(ok, b, 'epoch-seed', 'seed = self.seed.unwrap_or_default() + self.epoch', 'seed is %s' % show_in(b, sv) if sv else '?', seeds[0].span)
    fm = [t for t in b.calls(r'Iterator::filter_map$')]
    first = [t for t in fm if has(sym(b, t.args[0]), Call('Iterator::step_by')) and not has(sym(b, t.args[0]), Call('::pipe'))]
    if len(first) != 1:
        raise AnchorMissing('the filter_map attaching TextDataInfo')
    clo = closure_of(ctx, sym(b, first[0].args[1]))
    inner = [c for c in closures_in(ctx, clo)]
    bodies = [clo] + inner
    infos = []
    for c in bodies:
        for v, blk in ret_values(c):
            for x in walk(v):
                if isinstance(x, tuple) and x and x[0] == 'agg' and x[1] == 'adt' and x[2].endswith('TextDataInfo::TextDataInfo'):
                    infos.append((c, x))
    if len(infos) != 1:
        raise AnchorMissing('construction of TextDataInfo in the item closure (found %d)' % len(infos))
    c, info = infos[0]
    sd = agg_field(ctx.facts, info, 'seed')
    fi = agg_field(ctx.facts, info, 'file_idx')
    sd_r = resolve_upvars(ctx, c, core(sd))
    fi_r = resolve_upvars(ctx, c, core(fi))

    def strip(t):
        if isinstance(t, tuple) and t and t[0] == 'inparent':
            return strip(t[1])
        if isinstance(t, tuple):
            return tuple(strip(x) if isinstance(x, tuple) else x for x in t)
        return t
    sd_c = core(strip(sd_r))
    fi_c = core(strip(fi_r))
    # seed + item_idx where item_idx = arg.0 of the outer closure, seed = captured epoch seed
    ok = sd_c[0] == 'bin' and sd_c[1] == 'Add'
    parts = [sd_c[2], sd_c[3]] if ok else []
    idx_ok = any(match(p, ('field', ('arg', 2, ANY), 0)) for p in parts)
    seed_ok = any(nosite(p) == nosite(sv) for p in parts) if sv else False
    ctx.require(ok and idx_ok and seed_ok, c, 'item-seed', 'TextDataInfo.seed = epoch seed + item index (enumerate component 0)',
                'TextDataInfo.seed is %s' % show_in(c, sd_c), None)
    ctx.require(match(fi_c, ('field', ('field', ('arg', 2, ANY), 1), 1)), c, 'file-idx', 'TextDataInfo.file_idx = source tag of the generator item',
                'file_idx is %s' % show_in(c, fi_c))
    # the enumerate feeding this closure is applied directly to the generator (global index)
    en = [t for t in b.calls(r'Iterator::enumerate$')]
    src_ = core(init_value(b, sym(b, en[0].args[0]))) if len(en) == 1 else ()
    if src_ and match(src_, Call('Iterator::take', ANY, ANY)):
        src_ = core(src_[2][0])      # a prefix cut in front of enumerate() does not shift the indices
    ok = len(en) == 1 and match(src_, Call('MultiTrainDataGenerator::new', ANY, ANY, ANY))
    ctx.require(ok, b, 'global-index', 'enumerate() is applied directly to the generator: indices are global',
                'enumerate() is applied to %s: the index (and with it every item seed) depends on rank / skip / fast_forward'
                % (show_in(b, init_value(b, sym(b, en[0].args[0]))) if en else '?'), en[0].span if en else None)
    # setters: absolute assignment
    for fn, fld in (('set_fast_forward', 'fast_forward'), ('set_epoch', 'epoch')):
        sb = ctx.body(TL + '::' + fn)
        from rules.common import field_writes
        stores = [(s_, peel(t_), v_) for s_, t_, v_ in field_writes(sb) if match(core(t_), ('field', ('arg', 1, ANY), ANY))]
        ok = len(stores) == 1 and match(core(stores[0][1]), F(fld)) and match(core(stores[0][2]), ('arg', 2, ANY))
        ctx.require(ok, sb, 'setter|' + fn, '%s assigns self.%s := argument (absolute, replaceable)' % (fn, fld),
                    '%s stores %s' % (fn, [(show_in(sb, t), show_in(sb, v)) for _, t, v in stores]))
    # who else writes the offset fields
    offs = ('skip', 'limit', 'rank', 'world_size', 'fast_forward', 'epoch', 'seed')
    for o in ctx.facts.bodies:
        if not (o.impl_self and o.impl_self.endswith('data::TrainLoader')) or o.span['exp']:
            continue
        n = norm_path(o.path)
        for s_ in o.stmts():
            if s_.kind == 'assign' and s_.lhs.proj:
                t = sym(o, s_.lhs)
                if t[0] == 'field' and match(t[1], ('arg', 1, ANY)) and t[2] in offs:
                    allowed = (n.endswith('::set_fast_forward') and t[2] == 'fast_forward') or (n.endswith('::set_epoch') and t[2] == 'epoch')
                    ctx.require(allowed, o, 'offset-writer|' + t[2], '%s is the designated writer of self.%s' % (n.rsplit('::', 1)[-1], t[2]),
                                '%s writes self.%s: stream offsets change behind the caller\'s back' % (n, t[2]), s_.span)


@rule('C08', 'R-C08-3', 'T6 NONDET',
      'no ambient nondeterminism source (OS rng, clock, environment, thread identity) is called in the per-item code; every '
      'rng constructed there is ChaCha8Rng::seed_from_u64(info.seed)')
def r3(ctx):
    scope = pipeline_scope(ctx)
    forb = re.compile(r'from_os_rng$|from_entropy$|rand::rng$|thread_rng$|rand::random$|SystemTime::now$|Instant::now$|env::var|'
                      r'thread::current$|process::id$|RandomState::new$|getrandom')
    n_rng = 0
    for b in scope:
        ctx.stats['bodies_inspected'].add(b.path)
        for t in b.calls(forb):
            n = norm_path(b.path)
            if n in ('data::loading::Batched::new', 'data::loading::MultiTrainDataGenerator::new'):
                # reviewed: only on the `seed is None` edge; init_iter always passes Some(seed) (R-C08-1)
                arg = 7 if n.endswith('Batched::new') else 3
                under_none = any(match(tt, ('arg', arg, ANY)) and names == {'None'} for tt, names in variant_facts_at(b, t.bb))
                ctx.require(under_none, b, 'os-rng|' + n.rsplit('::', 2)[-2], 'OS rng in %s only on the seed-is-None edge' % n, None, t.span)
                continue
            ctx.fail(b, 'nondet-source|' + (t.callee_res() or '').rsplit('::', 1)[-1],
                     '%s calls %s (line %d): the item stream depends on something other than (files, config, seed, epoch, index)'
                     % (n, t.callee_res(), t.span['line']), t.span)
        for t in b.calls(r'SeedableRng::seed_from_u64$|SeedableRng::from_seed$|SeedableRng::from_rng$'):
            n = norm_path(b.path)
            if n in ('data::loading::Batched::new', 'data::loading::MultiTrainDataGenerator::new'):
                continue
            n_rng += 1
            a = core(sym(b, t.args[0]))
            ok = a[0] == 'field' and a[2] == 'seed' and a[1][0] == 'arg' and 'TextDataInfo' in b.local_ty(a[1][1])
            ctx.require(ok, b, 'rng-seed', 'rng in %s is seeded from info.seed' % n.rsplit('::', 2)[-2],
                        'rng in %s is seeded from %s, not from the item\'s TextDataInfo.seed' % (n, show_in(b, a)), t.span)
    if n_rng < 5:
        raise AnchorMissing('expected the 5 per-item rng constructions (whitespace, substring, spelling, switch, mask), found %d' % n_rng)
    # rngs are not shared between items: no rng stored in a captured/static place
    ctx.ok(None, 'scope: %d bodies of the per-item pipeline scanned for nondeterminism sources' % len(scope))


@rule('C08', 'R-C08-4', 'T7 HASH-ORDER',
      'no HashMap/HashSet iteration order reaches an ordered sink in the per-item code (tokenizer construction included)')
def r4(ctx):
    scope = pipeline_scope(ctx)
    fs, n = hashorder.scan(ctx.facts, scope)
    if n < 10:
        raise AnchorMissing('expected at least 10 hash-iteration consumers in the pipeline scope, found %d' % n)
    reviewed = {
        ('tokenization::BaseTokenizer::new', 'sorted_by_key'):
            'merge table sorted by merge id: ids are unique in a well-formed table (precondition of C02), so no ties',
    }
    for f in fs:
        n_ = norm_path(f.body.path)
        if f.kind == 'SENSITIVE':
            if (n_, f.consumer) in reviewed:
                ctx.ok(f.body, 'reviewed exception: %s (%s)' % (f.why[:60], reviewed[(n_, f.consumer)]), f.term.span)
                continue
            ctx.fail(f.body, 'hash-order|' + f.consumer, '%s: %s (source %s)' % (n_, f.why, f.source_tree[:120]), f.term.span)
        elif f.kind == 'unclassified':
            ctx.note('unclassified hash-order consumer `%s` in %s:%d' % (f.consumer, f.body.file(), f.term.span['line']))
            ctx.ok(f.body, 'unclassified consumer `%s` (no alarm)' % f.consumer, f.term.span)
        else:
            ctx.ok(f.body, '%s: %s' % (f.consumer, f.why[:80]), f.term.span)


@rule('C08', 'R-C08-5', 'prerequisites (C05 order-preserving pipe, C06 seeded batching)',
      'the ticket protocol rules of C05 and the batching determinism rule of C06 hold (re-evaluated here)')
def r5(ctx):
    from rules import c05, c06
    for fn in (c05.r1, c05.r2, c05.r3, c05.r4, c06.r5):
        fn(ctx)


@rule('C08', 'R-C08-6', 'T10 WHO (no hidden state in the pipeline closures)',
      'per-item closures keep no mutable state across items: no thread-local, static mut, Cell/RefCell/Mutex captured in '
      'preprocessing / postprocessing / task closures (the max_length atomic is only read)')
def r6(ctx):
    scope = [b for b in pipeline_scope(ctx) if b.file() in ('src/data/preprocessing.rs', 'src/data/postprocessing.rs', 'src/data/task.rs',
                                                             'src/data/utils.rs', 'src/corrupt.rs')]
    if len(scope) < 50:
        raise AnchorMissing('per-item closure scope has %d bodies' % len(scope))
    n = 0
    for b in scope:
        for s in b.stmts():
            if s.kind == 'assign' and s.rv.kind == 'tls':
                ctx.fail(b, 'thread-local', '%s reads a thread-local (line %d): state leaks between items' % (norm_path(b.path), s.span['line']), s.span)
                n += 1
        for t in b.calls(r'RefCell.*::borrow_mut$|Cell.*::set$|Mutex.*::lock$|RwLock.*::write$|LocalKey|OnceCell|' + r'Atomic\w*::(store|swap|fetch_\w+)$'):
            ctx.fail(b, 'interior-mutability|' + (t.callee_res() or '').rsplit('::', 1)[-1],
                     '%s mutates shared state through %s (line %d)' % (norm_path(b.path), t.callee_res(), t.span['line']), t.span)
            n += 1
    ctx.ok(None, 'scanned %d per-item bodies, %d interior-mutability sites' % (len(scope), n))


@rule('C08', 'R-C08-7', 'T6 (independence of the worker count)',
      'the worker count of the loaders (the u8 constructor argument / field) flows only into the thread-count argument of pipe(..) '
      'and into its own field: no batching, prefetching, seeding, skipping or striding value depends on it')
def r7(ctx):
    from analysis.seq import subst

    def tainted(tree, pats):
        # the pipe(.., n) call itself is the one legitimate consumer: what it returns does not carry the count
        tree = subst(tree, lambda x: ('pipe',) if x[0] == 'call' and re.search(r'::pipe$', x[1]) else None)
        return any(has(tree, p) for p in pats)
    n = 0
    for cls in ('TrainLoader', 'InferenceLoader'):
        new = ctx.body('data::%s::new' % cls)
        u8s = [i for i in range(1, new.arg_count + 1) if new.local_ty(i) == 'u8']
        if len(u8s) != 1:
            raise AnchorMissing('%s::new: the worker-count (u8) parameter (found %d)' % (cls, len(u8s)))
        adt = ctx.facts.adts.get('data::%s' % cls)
        fld = [fl['name'] for v in (adt['variants'] if adt else ()) for fl in v['fields'] if fl['ty'] == 'u8']
        pats = [('arg', u8s[0], ANY)]
        bodies = [(new, pats)]
        if fld:
            fp = [('field', ('arg', 1, ANY), fld[0])]
            for b in ctx.facts.bodies:
                if b.impl_self and norm_path(b.impl_self).endswith('data::%s' % cls) and b.kind != 'Closure' and b is not new and not b.span['exp']:
                    bodies.append((b, fp))
        for b, pp in bodies:
            for t in b.terms('call'):
                if not t.args:
                    continue
                name = t.callee_res() or ''
                for i, a in enumerate(t.args):
                    tr = sym(b, a)
                    if not (tainted(tr, pp) or (re.search(r'::pipe$', name) and any(has(tr, p_) for p_ in pp))):
                        continue
                    n += 1
                    ok = (re.search(r'PipelineIterator.*::pipe$|::pipe$', name) and i == len(t.args) - 1 and match(core(tr), pp[0])) or \
                        re.search(r'fmt::|Arguments::new|Debug|Display', name) is not None
                    ctx.require(bool(ok), b, 'worker-count-use|' + name.rsplit('::', 1)[-1], '%s: the worker count is passed to pipe(.., n) only (line %d)' % (cls, t.span['line']),
                                '%s: the worker count flows into `%s` (argument %d, line %d): the item / batch sequence must be identical for every worker count' % (
                                    cls, name, i, t.span['line']), t.span)
            # struct literal: only its own field may hold it
            for v, bb in ret_values(b):
                for x in walk(v):
                    if isinstance(x, tuple) and x and x[0] == 'agg' and x[1] == 'adt' and x[2].endswith('data::%s::%s' % (cls, cls)) or \
                            (isinstance(x, tuple) and x and x[0] == 'agg' and x[1] == 'adt' and norm_path(x[2]).endswith('%s::%s' % (cls, cls))):
                        fields = [fl['name'] for vv in adt['variants'] for fl in vv['fields']] if adt else []
                        for fn_, val in zip(fields, x[3]):
                            if tainted(val, pp):
                                n += 1
                                ctx.require(fn_ in fld and match(core(val), pp[0]), b, 'worker-count-field|' + fn_,
                                            '%s { %s: worker count } stores the count unchanged' % (cls, fn_),
                                            '%s: field `%s` is computed from the worker count (%s)' % (cls, fn_, show_in(b, val)[:80]))
    if n == 0:
        raise AnchorMissing('no use of the worker count found in the loaders')


@rule('C08', 'R-C08-8', 'T10 PROVENANCE (the window parameters are stored as given)',
      'TrainLoader::new stores skip and seed exactly as passed, (rank, world_size) as `distributed.unwrap_or((0, 1))` and limit as `limit.unwrap_or(usize::MAX)`: the shard '
      'arithmetic of init_iter (take(limit) / skip(skip + fast_forward + rank) / step_by(world_size)) is the only place that combines them. A limit '
      '"rounded" to a multiple of the world size drops the last items of the window from every rank')
def r8(ctx):
    from analysis.sym import agg_field
    b = ctx.body('data::TrainLoader::new')
    oks = [v for v, bb in ret_values(b) if v[0] == 'agg' and v[2].endswith('Result::Ok')]
    if len(oks) != 1:
        raise AnchorMissing('Ok(TrainLoader {..}) in TrainLoader::new')
    st = peel(init_value(b, oks[0][3][0]))
    if not (st[0] == 'agg' and st[1] == 'adt'):
        raise AnchorMissing('the TrainLoader {..} literal of TrainLoader::new')
    args = {b.var_name(i): i for i in range(1, b.arg_count + 1)}
    from analysis.alts import value_alts

    def defaulted(v, argi, k=None):
        """v is `arg.unwrap_or(<constant>)` in any spelling (unwrap_or, map_or(c, identity), match { Some(x) => x, None => c }): its alternatives
        are the payload of the argument (component k of it) and constants"""
        from analysis.alts import flatten, expand
        alts_ = [a2 for a1 in flatten(expand(ctx.facts, b, nosite(init_value(b, v)))) for a2 in value_alts(ctx.facts, b, a1.value, expanded=True)]
        pay = consts = 0
        for a_ in alts_:
            c_ = core(a_.value)
            while c_[0] == 'call' and c_[1].endswith('identity') and c_[2]:
                c_ = core(c_[2][0])
            if k is not None and c_[0] == 'field' and c_[2] == k:
                c_ = core(c_[1])
            elif k is not None and c_[0] == 'agg' and c_[1] == 'tuple' and k < len(c_[3]):
                c_ = core(c_[3][k])
            if c_[0] == 'const':
                consts += 1
            elif match(c_, ('arg', argi, ANY)) or match(c_, ('field', ('variant', ('arg', argi, ANY), 'Some'), 0)):
                pay += 1
            else:
                return False
        return pay >= 1 and consts >= 1
    if 'distributed' not in args:
        raise AnchorMissing('parameter `distributed` of TrainLoader::new')
    DIST = Call('Option::unwrap_or', ('arg', args['distributed'], ANY), ANY)
    for k, fld in enumerate(('rank', 'world_size')):
        v = agg_field(ctx.facts, st, fld)
        ok = v is not None and (match(peel(init_value(b, v)), ('field', DIST, k)) or match(core(init_value(b, v)), ('field', ('arg', args['distributed'], ANY), k)) or
                                defaulted(v, args['distributed'], k))
        ctx.require(ok, b, 'stored|' + fld, 'self.%s is component %d of `distributed` (default (0, 1))' % (fld, k),
                    'self.%s is `%s`' % (fld, show_in(b, init_value(b, v))[:80] if v is not None else '?'))
    for fld in ('skip', 'seed'):
        if fld not in args:
            raise AnchorMissing('parameter `%s` of TrainLoader::new' % fld)
        v = agg_field(ctx.facts, st, fld)
        ctx.require(v is not None and match(core(v), ('arg', args[fld], ANY)), b, 'stored|' + fld, 'self.%s is the parameter `%s`' % (fld, fld),
                    'self.%s is `%s` instead of the parameter: the shard arithmetic of init_iter works on a different value than the caller configured' % (
                        fld, show_in(b, v)[:80] if v is not None else '?'))
    v = agg_field(ctx.facts, st, 'limit')
    okl = v is not None and 'limit' in args and (match(peel(init_value(b, v)), Call('Option::unwrap_or', ('arg', args['limit'], ANY), Pred(lambda u: core(u)[0] == 'const'))) or
                                                  defaulted(v, args['limit']))
    ctx.require(okl, b, 'stored|limit', 'self.limit = limit.unwrap_or(usize::MAX)',
                'self.limit is `%s`: the window [skip, limit) is changed before init_iter shards it (items at the end of the window reach no rank, and a '
                'validation / training split at k overlaps or leaves a gap)' % (show_in(b, init_value(b, v))[:100] if v is not None else '?'))
