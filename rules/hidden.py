"""One rule per property: the code the property is stated over keeps no state between calls (T12 OWNERSHIP). Every property quantifies
over inputs ("for every text / id sequence / batch ..."), i.e. states the result as a function of the arguments; a buffer, counter or flag kept
in a `thread_local!` or in a static with interior mutability makes the result depend on the calls that came before (on the same thread, or
in another object of the same type). Scope per property: the files its mechanism is anchored in (properties.jsonl) plus the shared helper
files. Init-once statics of immutable values (LazyLock<Regex>) are not flagged."""
import json
from analysis.engine import rule, AnchorMissing
from rules.common import no_hidden_state

SHARED = ['src/unicode.rs', 'src/utils.rs', 'src/text.rs']
WHY = {
    'C01': 'a decode buffer kept across calls and cleared only on success makes a decode depend on an earlier failed one',
    'C05': 'two pipes alive at the same time share the state: each overwrites the turn of the other',
    'C09': 'two loaders alive at the same time share the state',
}


def _files():
    out = {}
    for l in open('/verif/properties.jsonl'):
        d = json.loads(l)
        a = d.get('anchors') or d.get('code') or {}
        out[d['id']] = sorted(set((a.get('files') or []) + SHARED))
    return out


def _mk(pid, files):
    @rule(pid, 'R-%s-HS' % pid, 'T12 OWNERSHIP (no state between calls)',
          'nothing in %s keeps a buffer, counter or flag in a thread_local or in a static with interior mutability: the results are functions of the '
          'arguments (and of the object they are called on), not of earlier calls' % ', '.join(files))
    def r(ctx, files=files, pid=pid):
        bodies = [b for b in ctx.facts.bodies if b.file() in files]
        no_hidden_state(ctx, pid, WHY.get(pid, 'what a call returns then depends on the calls made before it (on the same thread or on another object)'), bodies)
    return r


for _pid, _files_ in _files().items():
    _mk(_pid, _files_)


# --------------------------------------------------------------------------------------------------------------------------------
# Overrides of Iterator's provided consuming methods. The rules that decide the sharding / skipping arithmetic (enumerate, take, skip,
# step_by over the generator) reason about `next`; std's skip / step_by / take call `nth`, so an override of `nth` is part of the same
# contract: nth(n) consumes exactly n + 1 items. One shape is certainly wrong and is reported: after a bulk skip of an INNER iterator
# came back empty (`inner.nth(n)` is None: the inner source ended after an unknown number k <= n of items) the override goes on pulling
# (`self.next()`, or `nth` with the unchanged n) and returns that item -- the k items already consumed are not subtracted, the stream
# is shifted by k against the index `Enumerate::nth` hands out.
def _nth_overrides(ctx):
    return [b for b in ctx.facts.bodies if b.kind != 'Closure' and b.file().startswith('src/') and b.impl_trait and
            norm_path_(b.impl_trait).endswith('Iterator') and re_.search(r'::(nth|advance_by|nth_back)$', b.path)]


def norm_path_(p):
    from analysis.facts import norm_path
    return norm_path(p)


import re as re_


def bulk_skip_accounted(ctx, files):
    from analysis import cfg
    from analysis.sym import sym, core, nosite, variant_edges
    n_over = 0
    for b in _nth_overrides(ctx):
        if b.file() not in files:
            continue
        n_over += 1
        inner = [t for t in b.calls(r'::(nth|advance_by)$') if not (t.callee_res() or '').endswith(norm_path_(b.path).rsplit('::', 2)[-2] + '::nth')]
        for t in inner:
            none_edges = variant_edges(b, sym(b, t.dest), 'None')
            narg = nosite(core(sym(b, t.args[1]))) if len(t.args) > 1 else None
            for (u, w) in none_edges:
                region = cfg.reach(b, w)
                later = [c for c in b.terms('call') if c.bb in region and c is not t and re_.search(r'::(next|nth)$', c.callee_res() or '')]
                for c in later:
                    same_n = len(c.args) > 1 and nosite(core(sym(b, c.args[1]))) == narg
                    if (c.callee_res() or '').endswith('::next') or same_n:
                        ctx.fail(b, 'bulk-skip-unaccounted|' + norm_path_(b.path).rsplit('::', 1)[-1],
                                 '%s: after `%s` (line %d) came back empty the override pulls again with `%s` (line %d) without subtracting the items the inner iterator '
                                 'had already yielded: nth(n) consumes fewer than n + 1 items across the boundary, and everything behind skip / step_by / take is shifted '
                                 'against its index' % (norm_path_(b.path), (t.callee_res() or '').rsplit('::', 2)[-1], t.span['line'],
                                                        (c.callee_res() or '').rsplit('::', 1)[-1], c.span['line']), c.span)
                        break
        # a whole source skipped by its RECORDED length (`n -= self.lengths[idx]; idx += 1`): the length counts all items of the source, also the ones
        # it has already yielded -- right on a fresh generator, too much as soon as the source was entered (skip / step_by call nth on a running one)
        from analysis.sym import symbolizer, simplify, walk
        z = symbolizer(b)
        for s_ in b.stmts():
            if s_.kind != 'assign':
                continue
            try:
                v_ = simplify(z.rvalue(s_.rv, 0, ()))
            except Exception:
                continue
            c_ = core(v_)
            if c_[0] == 'bin' and c_[1] == 'Sub' and any(isinstance(x, tuple) and x and x[0] == 'field' and x[2] == 'lengths' for x in walk(c_[3])) and \
                    any(isinstance(x, tuple) and x and x[0] == 'arg' and x[1] == 2 for x in walk(c_[2])):
                ctx.fail(b, 'skip-by-recorded-length|' + norm_path_(b.path).rsplit('::', 1)[-1],
                         '%s: the count to skip is reduced by the recorded length of a source (line %d) and the source is passed over: the recorded length also counts '
                         'the items the source has already yielded, so on a generator that is under way nth(n) skips too few items of the following sources' % (
                             norm_path_(b.path), s_.span['line']), s_.span)
                break
    return n_over


for _pid in ('C07', 'C08'):
    def _mk2(pid):
        @rule(pid, 'R-%s-NTH' % pid, 'T13 PAIR (nth consumes n + 1 items)',
              'an override of Iterator::nth / advance_by in the loader does not continue after an inner bulk skip that came back empty without accounting for '
              'the items that skip consumed (skip / step_by / take of TrainLoader::init_iter call nth)')
        def r(ctx, pid=pid):
            files = _files()[pid]
            n = bulk_skip_accounted(ctx, files)
            ctx.ok(None, '%d overrides of Iterator::nth / advance_by in %s inspected' % (n, ', '.join(files)[:100]))
        return r
    _mk2(_pid)


# --------------------------------------------------------------------------------------------------------------------------------
# Truncating exits. Of the 76 iterator-driven loops under src/ only 7 can be left before their source is exhausted and still return a
# result; five of them leave on a test of the CURRENT element (a search, a failed send of the element), two on something else and are
# reviewed below. A new exit whose condition does not look at the current element (`if out.len() > CAP { break }`, `if n == 4096 { break }`)
# drops the rest of the input without an error: every property that says "for every text / every item" loses the tail.
REVIEWED_EARLY_EXITS = {
    'data::loading::Batched::build_batch': 'the prefetch loop stops when the buffer holds prefetch_factor * limit items; the items stay in the source for the next call',
    'tokenization::train_bpe': 'the merge loop ends when no pair with positive frequency is left (R-C19-1 / R-C19-7 judge that exit)',
}


def truncating_exits(ctx, files):
    from analysis import cfg
    from analysis.seq import next_call_of
    from analysis.sym import sym, nosite, peel, walk, variant_edges, ret_values, edge_guards
    n = 0
    bad = []
    for b in ctx.facts.bodies:
        if b.file() not in files or '::tests::' in b.path:
            continue
        for lp in cfg.loops(b):
            nx = next_call_of(b, lp)
            if nx is None:
                continue
            n += 1
            item = nosite(sym(b, nx.dest))
            none = {(e[0], e[1]) for e in variant_edges(b, sym(b, nx.dest), 'None')}
            rets = ret_values(b)
            for (u, v) in lp.exits(b):
                if (u, v) in none:
                    continue
                reach = cfg.reach_const(b, v)
                vals = [peel(x) for x, bb in rets if bb in reach]
                has_ret = any(b.blocks[x].term.kind == 'return' for x in reach)
                errlike = lambda x: isinstance(x, tuple) and x and ((x[0] == 'agg' and x[1] == 'adt' and (x[2].endswith('Result::Err') or x[2].endswith('Option::None')))
                                                                    or (x[0] == 'call' and x[1].endswith('from_residual')))
                if (not has_ret) or (bool(vals) and all(errlike(x) for x in vals)):
                    continue
                gs = [g for g in edge_guards(b) if g.block == u and g.target == v]
                on_item = any(any(isinstance(x, tuple) and nosite(x) == item for x in walk(g.t)) for g in gs)
                # a worker that stops because its channel was closed (the consumer is gone) is not a truncation
                on_send = any(any(isinstance(x, tuple) and x and x[0] == 'call' and re_.search(r'mpsc::(Sync)?Sender::(send|try_send)$', x[1]) for x in walk(g.t)) for g in gs)
                # ... also when the outcome of the send is carried in a flag (`receiver_open = tx.send(x).is_ok()`)
                if not on_send:
                    from rules.common import local_defs as _ld
                    for g in gs:
                        for x in walk(g.t):
                            if isinstance(x, tuple) and x and x[0] in ('var', 'phi'):
                                loc = x[2] if x[0] == 'var' and len(x) > 2 else (x[1] if x[0] == 'phi' else None)
                                if isinstance(loc, int) and 'bool' in (b.local_ty(loc) or ''):
                                    for s_, v_ in _ld(b, loc):
                                        if any(isinstance(y, tuple) and y and y[0] == 'call' and re_.search(r'mpsc::(Sync)?Sender::(send|try_send)$', y[1]) for y in walk(v_)):
                                            on_send = True
                # the prefetch buffer of the batcher is full (the items stay in the source for the next call): reviewed, wherever the fill loop lives
                prefetch = any(any(isinstance(x, tuple) and x and x[0] == 'call' and x[1].endswith('BatchLimit::limit') for x in walk(g.t)) for g in gs)
                if on_item or on_send or prefetch or not gs:
                    continue
                key = norm_path_(b.root if b.kind == 'Closure' and getattr(b, 'root', None) else b.path)
                if norm_path_(b.path) in REVIEWED_EARLY_EXITS or key in REVIEWED_EARLY_EXITS:
                    continue
                bad.append((b, b.blocks[u].term.span, gs[0]))
    return n, bad


def _mk3(pid, files):
    @rule(pid, 'R-%s-FT' % pid, 'T3 LOOP-EXIT (no truncating exit)',
          'every loop over an iterator in %s that can be left early and still return a result leaves on a test of the CURRENT element (a search) or is one '
          'of the two reviewed exits (prefetch buffer full, no pair left to merge): a cap on the output size or on a counter silently drops the rest of the input' % ', '.join(files))
    def r(ctx, files=files, pid=pid):
        from analysis.sym import show_in
        n, bad = truncating_exits(ctx, files)
        for b, span, g in bad:
            ctx.fail(b, 'truncating-exit|' + norm_path_(b.path).rsplit('::', 1)[-1],
                     '%s: the loop over the input is left at line %d on `%s`, a condition that does not look at the current element, and a result is still returned: '
                     'the remaining elements are silently dropped' % (norm_path_(b.path), span['line'], show_in(b, g.t)[:80]), span)
        ctx.ok(None, '%s: %d iterator loops inspected, no truncating exit' % (pid, n))
    return r


for _pid, _files_ in _files().items():
    _mk3(_pid, _files_)


# --------------------------------------------------------------------------------------------------------------------------------
# The line reader under every file-backed source: LossyUtf8Lines::next ends the stream (None) only when read_until read 0 bytes. A
# `None` on any other condition (an empty line after stripping the newline) makes a blank line in the middle of a file look like its
# end: the generator marks the source finished and the rest of the file is never yielded.
def line_reader_ends_at_eof_only(ctx):
    from analysis.sym import sym, core, peel, nosite, ret_values, guards_at
    from analysis.pat import match, Call, ANY, Const
    cands = [b for b in ctx.facts.bodies if b.kind != 'Closure' and b.path.endswith('::next') and 'LossyUtf8Lines' in str(b.impl_self)]
    if len(cands) != 1:
        raise AnchorMissing('Iterator::next of data::loading::LossyUtf8Lines (found %d)' % len(cands))
    b = cands[0]
    rd = [t for t in b.calls(r'BufRead::read_until$|BufRead::read_line$')]
    if len(rd) != 1:
        raise AnchorMissing('LossyUtf8Lines::next: the read_until call (found %d)' % len(rd))
    res = nosite(sym(b, rd[0].dest))
    n = 0
    for v, blk in ret_values(b):
        pv = peel(v)
        if not (pv[0] == 'agg' and pv[1] == 'adt' and pv[2].endswith('Option::None')):
            continue
        n += 1
        # the guards of the block: Ok variant of the read result and its payload == 0
        zero = False
        for g in guards_at(b, blk):
            if g.t[0] == 'discr':
                continue
            c = core(g.t)
            if nosite(c) == nosite(core(('unwrap', res))) and g.values == {0}:
                zero = True
            t_, pol_ = g.atom()
            if pol_ is True and match(core(t_), ('bin', 'Eq', ANY, Const(0))) and nosite(core(core(t_)[2])) == nosite(core(('unwrap', res))):
                zero = True
        ctx.require(zero, b, 'eof-only', 'the line reader returns None only after read_until read 0 bytes (end of file)',
                    'LossyUtf8Lines::next returns None (line %d) on a path where read_until did not report 0 bytes: a blank or unusual line in the middle of a file ends the '
                    'source, the items behind it are never yielded' % b.blocks[blk].term.span['line'], b.blocks[blk].term.span)
    if n == 0:
        raise AnchorMissing('LossyUtf8Lines::next: a None result')


for _pid in ('C07', 'C08'):
    def _mk4(pid):
        @rule(pid, 'R-%s-EOF' % pid, 'T3 LOOP-EXIT (a source ends at its end of file only)',
              'LossyUtf8Lines::next, the line reader under every jsonl source, returns None only when read_until read 0 bytes')
        def r(ctx):
            line_reader_ends_at_eof_only(ctx)
        return r
    _mk4(_pid)
