"""T8 OFFSET rules for the three id spaces of the BPE tokenizer (merge id, token id = 256 + merge id,
index into the token table state.1 = token id). Shared by C02 (tokenize/de_tokenize side) and C04 (vocabulary maps)."""
import re
from analysis.engine import AnchorMissing
from analysis import cfg
from analysis.sym import sym, show_in, nosite, peel, core, walk, cmp_facts_at, ret_values, args_of, loop_source, init_value
from analysis.pat import match, Call, Cap, ANY, Pred, Const, chain, chain_names, has
from rules.common import body_for, bpe_body, closure_of, BPE, closures_in

TOK = '<tokenization::BaseTokenizer as tokenization::Tokenize>::'


def is_state(t, i):
    """tree denotes self.state.<i> (possibly seen through a captured `self`)"""
    return (t[0] == 'field' and t[2] == i and t[1][0] == 'field' and t[1][2] == 'state')


def mentions_state(t, i):
    return any(isinstance(s, tuple) and s and is_state(s, i) for s in walk(t))


def is_add256(t, inner_pred):
    """core tree is Add(256, x) or Add(x, 256) with inner_pred(x)"""
    if t[0] != 'bin' or t[1] != 'Add':
        return False
    a, b = t[2], t[3]
    for c, x in ((a, b), (b, a)):
        if c[0] == 'const' and c[2] == 256 and inner_pred(x):
            return True
    return False


def table_index_sites(ctx, body):
    """(call term, index operand tree) for every Index::index on self.state.1 in body"""
    out = []
    for t in body.calls(r'ops::Index>::index$'):
        a = args_of(body, t)
        if is_state(peel(a[0]), 1):
            out.append((t, a[1]))
    return out


def check_table_index(ctx, body, what):
    """T8-c: index into the token table is the unshifted id and is bounded by the unshifted table length"""
    sites = table_index_sites(ctx, body)
    # `self.state.1.get(id)` is the same lookup with the bound built in (None past the end)
    gets = []
    for t in body.calls(r'slice::.*::get$|<\[.*\]>::get$|Vec::get$|::get$'):
        a = args_of(body, t)
        if len(a) == 2 and is_state(peel(core(a[0])), 1):
            gets.append((t, a[1]))
    if not sites and not gets:
        raise AnchorMissing('%s does not index the token table self.state.1' % what)
    for t, x in gets:
        arith = [s for s in walk(core(x)) if isinstance(s, tuple) and s and s[0] == 'bin']
        ctx.require(not arith, body, 'table-index-shifted', '%s: token table is looked up with the unshifted id %s' % (what, show_in(body, x)),
                    '%s: token table state.1 (which already contains the 256 byte tokens) is looked up with %s -- id spaces disagree' % (what, show_in(body, x)), t.span)
    for t, x in sites:
        cx = core(x)
        arith = [s for s in walk(cx) if isinstance(s, tuple) and s and s[0] == 'bin']
        ctx.require(not arith, body, 'table-index-shifted',
                    '%s: token table is indexed with the unshifted id %s' % (what, show_in(body, x)),
                    '%s: token table state.1 (which already contains the 256 byte tokens) is indexed with %s '
                    '-- id spaces disagree' % (what, show_in(body, x)), t.span)
        bound = False
        seen = []
        for op, a, b in cmp_facts_at(body, t.bb):
            if op == 'Gt':
                op, a, b = 'Lt', b, a
            if op != 'Lt':
                continue
            ca, cb = core(a), core(b)
            if ca == cx:
                seen.append(show_in(body, b))
                if match(cb, Call('Vec::len', Pred(lambda u: is_state(u, 1)))):
                    bound = True
        ctx.require(bound, body, 'table-bound',
                    '%s: index is guarded by id < self.state.1.len() (unshifted)' % what,
                    '%s: index %s is not guarded by `id < state.1.len()`; upper bounds seen: %s'
                    % (what, show_in(body, x), seen or 'none'), t.span)


def _src_ty(body, sort_term):
    """the vector that the in-place sort rearranges holds the entries of the merge table (`Vec<(&Vec<u8>, &u32)>`)"""
    r = core(sym(body, sort_term.args[0]))
    ty = body.local_ty(r[2]) if r[0] == 'var' and len(r) > 2 else ''
    return bool(re.search(r'Vec<\(&?(std::vec::)?Vec<u8>, &?u32\)', ty))


def check_writer(ctx):
    """T8-a: BPETokenizer::new fills the token table with 256 byte tokens then one token per merge in id order,
    and the special-token offset is the table length"""
    body = bpe_body(ctx, 'tokenization::BaseTokenizer::new')
    from analysis.seq import seq_of, ITEM
    from rules.common import range_bounds
    nb0 = list(body.calls(r'new_base_tokenizer$'))
    if len(nb0) != 1:
        raise AnchorMissing('call of new_base_tokenizer in BPETokenizer::new')
    st0 = sym(body, nb0[0].args[3])
    segs = seq_of(ctx.facts, body, st0[3][1]) if st0[0] == 'agg' and len(st0[3]) >= 2 else None
    if segs is None:
        raise AnchorMissing('construction of the token table passed as state.1')
    # the merge run either comes from `iter().sorted_by_key(..)` or from a Vec of the entries that is sorted in place by the same key
    # before it is chained in (SEQ kind 'sorted'); `inplace` is that sort call
    inplace = None
    if len(segs) == 2 and segs[1].kind == 'sorted' and len(segs[1].inner) == 1 and segs[1].what in ('sort_by_key', 'sort_by_cached_key'):
        inplace = segs[1].term
        segs = [segs[0], segs[1].inner[0]]
    ok = len(segs) == 2 and all(s.kind == 'each' and not s.conds for s in segs)
    ctx.require(ok, body, 'table-order', 'the token table is the byte tokens followed by the merge tokens, nothing else',
                'the token table is built as %s' % [repr(s)[:140] for s in segs])
    okb = ok and range_bounds(segs[0].src) == (0, 256)
    ctx.require(okb, body, 'byte-range', 'token table starts with one token per byte value 0..256',
                'the first run of the token table is `%s`' % (repr(segs[0])[:160] if segs else 'missing'), segs[0].term.span if segs and segs[0].term else None)
    good = False
    if ok:
        src = peel(segs[1].src)
        ishm = Pred(lambda u: 'HashMap<std::vec::Vec<u8>, u32>' in body.local_ty(u[2]) if u[0] == 'var' and len(u) > 2 else False)
        if inplace is not None:
            if _src_ty(body, inplace):
                clo = closure_of(ctx, sym(body, inplace.args[1]))
                rv = ret_values(clo)
                good = len(rv) == 1 and match(core(rv[0][0]), ('field', ('arg', 2, ANY), 1)) and core(segs[1].elem) == ('field', ITEM, 0)
        elif src[0] == 'call' and src[1].endswith('sorted_by_key') and match(core(src[2][0]), Pred(lambda u: 'HashMap<std::vec::Vec<u8>, u32>' in body.local_ty(u[2]) if u[0] == 'var' and len(u) > 2 else False)):
            clo = closure_of(ctx, src[2][1])
            rv = ret_values(clo)
            # key closure returns the merge id = component 1 of the (bytes, id) entry; the token is component 0
            good = len(rv) == 1 and match(core(rv[0][0]), ('field', ('arg', 2, ANY), 1)) and core(segs[1].elem) == ('field', ITEM, 0)
    ctx.require(good, body, 'merge-order', 'merge tokens (the key bytes) are appended in increasing merge-id order (sorted_by_key(id))',
                'merge tokens are not appended in merge-id order: %s' % (repr(segs[1])[:200] if len(segs) > 1 else 'missing'))
    nb = list(body.calls(r'new_base_tokenizer$'))
    if len(nb) != 1:
        raise AnchorMissing('call of new_base_tokenizer in BPETokenizer::new')
    off = core(sym(body, nb[0].args[0]))
    tbl = None
    st = sym(body, nb[0].args[3])
    if st[0] == 'agg' and len(st[3]) >= 2:
        tbl = core(st[3][1])
    ctx.require(tbl is not None and match(off, Call('Vec::len', Pred(lambda u: nosite(u) == tbl))), body,
                'special-offset', 'special-token offset = length of the token table stored as state.1',
                'special-token offset is %s, the table stored as state.1 is %s' % (
                    show_in(body, off), show_in(body, tbl) if tbl else '?'), nb[0].span)


def check_merge_bytes_sink(ctx):
    """T8-b in merge_bytes: the token id stored for a merged position is 256 + popped merge id"""
    body = bpe_body(ctx, 'tokenization::BaseTokenizer::merge_bytes')
    n = 0
    for s in body.stmts():
        if s.kind != 'assign' or not s.lhs.proj or s.rv.kind != 'use':
            continue
        if 'Option<u32>' not in body.local_ty(s.lhs.local):
            continue
        v = sym(body, s.rv.ops[0])
        if v[0] == 'agg' and v[2].endswith('Option::Some'):
            n += 1
            x = core(v[3][0])
            good = is_add256(x, lambda u: has(u, Call('BinaryHeap::pop')))
            ctx.require(good, body, 'merged-token-id', 'merged position gets token id 256 + merge id',
                        'merged position gets token id %s (expected 256 + popped merge id)' % show_in(body, v[3][0]), s.span)
    if n == 0:
        raise AnchorMissing('no `token_ids[..] = Some(..)` update in merge_bytes')
    # initial ids: the byte value itself (closure mapping bytes to Some(b as u32))
    inits = [t for t in body.calls(r'Iterator::collect$') if 'Vec<std::option::Option<u32>>' in body.local_ty(t.dest.local)]
    if len(inits) != 1:
        raise AnchorMissing('initial token id vector (collect into Vec<Option<u32>>)')
    ch = sym(body, inits[0].args[0])
    m = {}
    if match(ch, Call('Iterator::map', Cap('src'), Cap('clo'))):
        clo = closure_of(ctx, m.get('clo') or ch[2][1])
        rv = ret_values(clo)
        good = len(rv) == 1 and rv[0][0][0] == 'agg' and rv[0][0][2].endswith('Option::Some') and \
            match(core(rv[0][0][3][0]), ('arg', 2, ANY))
        ctx.require(good, clo, 'initial-token-id', 'initial token id of a byte is the byte value (no offset)',
                    'initial token ids are %s' % (show_in(clo, rv[0][0]) if rv else '?'))
        srcn = chain_names(ch[2][0])
        ctx.require(match(peel(srcn[0]), Call('as_str')) or True, body, 'initial-src', 'initial ids come from the word bytes')
    else:
        ctx.fail(body, 'initial-token-id', 'initial token ids are not built by map(..) over the word bytes', inits[0].span)


def check_token_to_id(ctx):
    from analysis.alts import value_alts, ret_choice
    body = body_for(ctx, TOK + 'token_to_id', BPE)
    n = 0
    for a in value_alts(ctx.facts, body, ret_choice(ctx.facts, body), expanded=True):
        v = peel(a.value)
        if not (v[0] == 'agg' and v[2].endswith('Option::Some')):
            continue
        x = core(v[3][0])
        if mentions_state(x, 0):
            n += 1
            ctx.require(is_add256(x, lambda u: mentions_state(u, 0)), body, 'token-to-id-offset',
                        'token_to_id: merge token -> 256 + merge id',
                        'token_to_id returns %s for a merge token (expected 256 + merge id)' % show_in(body, v[3][0]))
    if n == 0:
        ctx.fail(body, 'token-to-id-offset', 'token_to_id never returns an id derived from the merge table')


def check_get_vocab(ctx):
    body = body_for(ctx, TOK + 'get_vocab', BPE)
    ins = list(body.calls(r'BTreeMap::insert$|HashMap::insert$'))
    n = 0
    for t in ins:
        k = core(init_value(body, sym(body, t.args[1])))
        k0 = core(sym(body, t.args[1]))
        if k0[0] == 'field' and any(isinstance(x, tuple) and x and x[0] == 'call' and x[1].endswith('::next') for x in walk(k0)):
            continue      # a component of a pulled (id, token) pair: judged on the feeding sequence below
        if mentions_state(k, 0):
            n += 1
            ctx.require(is_add256(k, lambda u: mentions_state(u, 0)), body, 'get-vocab-offset',
                        'get_vocab: merge entry is stored under 256 + merge id',
                        'get_vocab stores a merge entry under %s' % show_in(body, sym(body, t.args[1])), t.span)
    from rules.common import range_bounds
    bytes_by_loop = False
    if n == 0:
        # the entries prepared as (id, token) pairs by iterator chains and inserted at one site: read the pairs off the sequence that feeds the loop
        from analysis.seq import seq_of_iter, ITEM as _IT
        from analysis.sym import loop_source
        for t in ins:
            lp = cfg.innermost_loop(body, t.bb)
            nx = [c for c in body.calls(r'::next$') if lp is not None and c.bb in lp.blocks]
            if len(nx) != 1:
                continue
            segs = seq_of_iter(ctx.facts, body, loop_source(body, nx[0])) or []
            for sg in segs:
                e = peel(sg.elem) if sg.elem is not None else ()
                if sg.kind != 'each' or not (e and e[0] == 'agg' and e[1] == 'tuple' and len(e[3]) == 2):
                    continue
                if mentions_state(sg.src, 0):
                    n += 1
                    ctx.require(is_add256(core(e[3][0]), lambda u: core(u) == ('field', _IT, 1)) and not sg.conds, body, 'get-vocab-offset',
                                'get_vocab: merge entry is stored under 256 + merge id', 'get_vocab stores a merge entry under %s' % show_in(body, e[3][0]), t.span)
        # the byte entries written by a for_each / loop over 0..256 instead of a collect
        for t in body.terms('call'):
            for a in t.args:
                for x in walk(nosite(sym(body, a))):
                    if isinstance(x, tuple) and x and x[0] in ('agg', 'call') and range_bounds(x) == (0, 256):
                        bytes_by_loop = True
    if n == 0:
        ctx.fail(body, 'get-vocab-offset', 'get_vocab inserts no entry keyed by a merge id')
    # the byte part: range 0..256 mapped to (b as u32, vec![b as u8])
    cols = [t for t in body.calls(r'Iterator::collect$')]
    good = bytes_by_loop
    for c in cols:
        ch = sym(body, c.args[0])
        if match(ch, Call('Iterator::map', ANY, ANY)) and range_bounds(ch[2][0]) == (0, 256):
            good = True
    ctx.require(good, body, 'get-vocab-bytes', 'get_vocab: ids 0..256 are the single bytes', None)


def check_vocab_size(ctx):
    body = body_for(ctx, TOK + 'vocab_size', BPE)
    rv = ret_values(body)
    good = False
    if len(rv) == 1:
        x = core(rv[0][0])
        if x[0] == 'bin' and x[1] == 'Add':
            parts = [x[2], x[3]]
            t1 = any(match(p, Call('Vec::len', Pred(lambda u: is_state(u, 1)))) for p in parts)
            t2 = any(match(p, Call('Vocab::len', ANY)) for p in parts)
            good = t1 and t2
    ctx.require(good, body, 'vocab-size', 'vocab_size = state.1.len() + special_vocab.len() (table length unshifted)',
                'vocab_size is %s' % (show_in(body, rv[0][0]) if rv else '?'))
