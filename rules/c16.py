"""C16 Inference windows tile the text exactly and respect the size limits."""
import re
from analysis.engine import rule, AnchorMissing
from analysis import cfg
from analysis.facts import norm_path
from analysis.sym import sym, show_in, nosite, peel, core, walk, ret_values, args_of, guards_at, atoms_at, \
    variant_facts_at, cmp_facts_at, init_value, edge_guards, symbolizer, simplify, loop_source, defs_of, var_defs, agg_field
from analysis.pat import match, Call, Cap, ANY, Pred, Const, has, chain_names
from rules.common import closure_of, closures_in, panic_sites, dominated_by_edge, state_locals, local_defs, V

W = 'windows::'


R = {}


def _roles(b):
    """window_start = the usize loop variable compared with the text length; window_length = max - (1 + [start > 0]) * context"""
    R.clear()
    for l in state_locals(b, r'^usize$'):
        for g in edge_guards(b):
            t = core(g.atom()[0])
            if t[0] == 'bin' and t[1] == 'Lt' and t[2][0] == 'var' and t[2][2] == l and match(t[3], Call('CharString::len', ANY)):
                R['window_start'] = l
    if 'window_start' not in R:
        raise AnchorMissing('the window loop variable (compared with the text length)')
    ws = V(R['window_start'])
    pat = ('bin', 'Sub', ('arg', 2, ANY), ('bin', 'Mul', ('bin', 'Add', Const(1), Pred(lambda u: has(u, ('bin', 'Gt', ws, Const(0))))), ('arg', 3, ANY)))
    R['wl_trees'] = []
    z = symbolizer(b)
    for s_ in b.stmts():
        if s_.kind == 'assign' and not s_.lhs.proj:
            v = core(simplify(z.rvalue(s_.rv, 0, ())))
            if match(v, pat) and nosite(v) not in R['wl_trees']:
                R['wl_trees'].append(nosite(v))


def _var(name):
    return Pred(lambda t: isinstance(t, tuple) and t and t[0] == 'var' and len(t) > 2 and R.get(name) == t[2])


def N(b, name):
    assert name == 'window_length'
    return Pred(lambda t: nosite(core(t)) in R.get('wl_trees', []))


def _invalid_cfg_guard(b):
    """the edge taken when max <= 2 * context"""
    for g in edge_guards(b):
        t, pol = g.atom()
        c = core(t)
        if c[0] != 'bin':
            continue
        two_ctx = Pred(lambda u: match(u, ('bin', 'Mul', Const(2), ('arg', 3, ANY))) or match(u, ('bin', 'Mul', ('arg', 3, ANY), Const(2))) or
                       match(u, ('bin', 'Add', ('arg', 3, ANY), ('arg', 3, ANY))) or match(u, Call('saturating_mul', ('arg', 3, ANY), Const(2))) or
                       match(u, Call('saturating_mul', Const(2), ('arg', 3, ANY))))
        mx = ('arg', 2, ANY)
        forms = [('Le', mx, two_ctx, True), ('Ge', two_ctx, mx, True), ('Gt', mx, two_ctx, False), ('Lt', two_ctx, mx, False)]
        for op, l, r, want in forms:
            if c[1] == op and match(c[2], l) and match(c[3], r) and pol is want:
                return g
    return None


@rule('C16', 'R-C16-1', 'T1/T15 (configuration guard)',
      'char() and byte() return Result; their first decision is `max <= 2 * context` whose true edge returns Err and which '
      'dominates the window-length subtraction max - k*context (k in {1,2}), so every window has length >= 1')
def r1(ctx):
    for fn in ('char', 'byte'):
        b = ctx.body(W + fn)
        rv = ret_values(b)
        ctx.require(all(v[0] == 'agg' and ('Result::' in v[2]) or match(v, Call('from_residual', ANY)) for v, blk in rv), b, 'returns-result|' + fn,
                    '%s returns anyhow::Result' % fn, None)
        g = _invalid_cfg_guard(b)
        if g is None:
            ctx.fail(b, 'config-guard|' + fn, '%s: the configuration check `max <= 2 * context => Err` was not found (a check through integer division or '
                     'a strict comparison accepts max == 2 * context: windows of length 0, i.e. a panic or an endless loop)' % fn)
            continue
        region = dominated_by_edge(b, (g.block, g.target))
        errs = [blk for v, blk in rv if v[0] == 'agg' and v[2].endswith('Result::Err')]
        ctx.require(any(e in region for e in errs) and not any(blk in region for v, blk in rv if v[0] == 'agg' and v[2].endswith('Result::Ok')), b,
                    'config-err|' + fn, '%s: an impossible configuration returns Err' % fn, None, b.blocks[g.block].term.span)
        # the window length subtraction is on the other side
        subs = [t for t in b.terms('assert') if t.msg['k'] == 'overflow' and t.msg.get('op') == 'Sub']
        other = [w for w in b.succ[g.block] if w != g.target]
        ok = bool(subs) and bool(other) and all(t.bb not in region and cfg.edge_dominates(b, (g.block, other[0]), t.bb) for t in subs)
        ctx.require(ok, b, 'guard-dominates-sub|' + fn, '%s: max - k*context is computed only for valid configurations' % fn, None)
        _roles(b)
        wl = R['wl_trees']
        okw = len(wl) == 1
        ctx.require(okw, b, 'window-length|' + fn, '%s: window_length = max - (1 + [window_start > 0]) * context' % fn, 'window_length = %s' % [show_in(b, x) for x in wl])


@rule('C16', 'R-C16-2', 'T3c PROGRESS (tiling)',
      'windows start at 0, each starts where the previous ended (window_start := the window_end stored in the pushed window), '
      'the loop runs while window_start < len; char: window_end = min(len, start + window_length); byte: window_end = start + '
      'count_until(start..len, window_length) and an empty window returns Err')
def r2(ctx):
    for fn in ('char', 'byte'):
        b = ctx.body(W + fn)
        pushes = [t for t in b.calls(r'Vec::push$') if 'Window' in b.local_ty(t.args[0].place.local)]
        if len(pushes) != 1:
            raise AnchorMissing('%s: push of the Window' % fn)
        loop = cfg.innermost_loop(b, pushes[0].bb)
        if loop is None:
            raise AnchorMissing('%s: window loop' % fn)
        _roles(b)
        defs = local_defs(b, R['window_start'])
        init = [core(v) for site, v in defs if site.bb not in loop.blocks]
        step = [(site, core(v)) for site, v in defs if site.bb in loop.blocks]
        ctx.require(len(init) == 1 and init[0][0] == 'const' and init[0][2] == 0, b, 'start-zero|' + fn, '%s: the first window starts at 0' % fn, None)
        w = sym(b, pushes[0].args[1])
        we = core(agg_field(ctx.facts, w, 'window_end')) if w[0] == 'agg' else None
        ws = core(agg_field(ctx.facts, w, 'window_start')) if w[0] == 'agg' else None
        ok = len(step) == 1 and we is not None and nosite(step[0][1]) == nosite(we)
        ctx.require(ok, b, 'next-start-is-end|' + fn, '%s: window_start := window_end of the window just pushed' % fn,
                    '%s: next window_start is %s but the pushed window_end is %s: windows overlap or leave gaps' % (
                        fn, [show_in(b, x) for _, x in step], show_in(b, we) if we else '?'))
        ctx.require(ws is not None and match(ws, _var('window_start')), b, 'pushed-start|' + fn, '%s: the pushed window_start is the loop variable' % fn, None)
        if len(step) == 1:
            ctx.require(all(cfg.must_pass(b, pushes[0].bb, l, via_blocks=[step[0][0].bb]) for l in loop.latches) and
                        cfg.dominates(b, pushes[0].bb, step[0][0].bb), b, 'advance-after-push|' + fn, '%s: the start is advanced after every push' % fn, None)
        # loop condition
        ok = False
        for (u, v) in loop.exits(b):
            for tt, pol, g in atoms_at(b, v):
                if g.block == u and pol is False and match(core(tt), ('bin', 'Lt', _var('window_start'), Call('CharString::len', ANY))):
                    ok = True
        ctx.require(ok, b, 'loop-until-end|' + fn, '%s: windows are produced while window_start < len (the last ends at len)' % fn, None)
        # window_end
        if fn == 'char':
            ok = we is not None and match(we, Call('Ord::min', Call('CharString::len', ANY), ('bin', 'Add', _var('window_start'), N(b, 'window_length')))) or \
                (we is not None and match(we, Call('Ord::min', ('bin', 'Add', _var('window_start'), N(b, 'window_length')), Call('CharString::len', ANY))))
            ctx.require(ok, b, 'window-end|char', 'char: window_end = min(len, window_start + window_length)', 'window_end = %s' % (show_in(b, we) if we else '?'))
        else:
            ok = we is not None and match(we, ('bin', 'Add', _var('window_start'), Call('count_until', ('agg', 'adt', Pred(lambda n: n.endswith('Range::Range')), (_var('window_start'), Call('CharString::len', ANY))), N(b, 'window_length'), ANY)))
            ctx.require(ok, b, 'window-end|byte', 'byte: window_end = window_start + count_until(window_start..len, window_length)', 'window_end = %s' % (show_in(b, we) if we else '?'))
            # empty window => Err, before the push
            # "no progress": window_end - window_start <= 0, in whatever way it is written (`window_end <= window_start`, `== `, the
            # character count `== 0` / `< 1`): the guard's comparison is brought to the form E <= 0 / E == 0 and E compared as a polynomial
            from analysis import poly as _poly
            D = _poly._add(_poly.poly(we), _poly.poly(('var', 'window_start', R['window_start'])), -1) if we else None

            def _noprog(gd):
                t_, pol_ = gd.atom()
                c_ = core(t_)
                if pol_ is None or c_[0] != 'bin' or c_[1] not in ('Le', 'Lt', 'Ge', 'Gt', 'Eq', 'Ne') or D is None:
                    return False
                op_ = c_[1] if pol_ else {'Le': 'Gt', 'Gt': 'Le', 'Lt': 'Ge', 'Ge': 'Lt', 'Eq': 'Ne', 'Ne': 'Eq'}[c_[1]]
                pa, pb = _poly.poly(c_[2]), _poly.poly(c_[3])
                one = {(): 1}
                if op_ == 'Le':
                    return _poly._add(pa, pb, -1) == D
                if op_ == 'Ge':
                    return _poly._add(pb, pa, -1) == D
                if op_ == 'Lt':
                    return _poly._add(_poly._add(pa, pb, -1), one, 1) == D
                if op_ == 'Gt':
                    return _poly._add(_poly._add(pb, pa, -1), one, 1) == D
                if op_ == 'Eq':
                    return _poly._add(pa, pb, -1) == D or _poly._add(pb, pa, -1) == D
                return False
            g = [g for g in edge_guards(b) if g.block in loop.blocks and _noprog(g)] if we else []
            ok = len(g) == 1
            if ok:
                region = dominated_by_edge(b, (g[0].block, g[0].target))
                errs = [blk for v, blk in ret_values(b) if v[0] == 'agg' and v[2].endswith('Result::Err')]
                ok = any(e in region for e in errs) and pushes[0].bb not in region and \
                    cfg.edge_dominates(b, (g[0].block, [x for x in b.succ[g[0].block] if x != g[0].target][0]), pushes[0].bb)
            ctx.require(ok, b, 'no-progress-is-err|byte', 'byte: a window that cannot hold one character returns Err before anything is pushed (no endless loop)',
                        'byte: the no-progress case `window_end <= window_start` does not return Err before the push')


@rule('C16', 'R-C16-3', 'T13 PAIR (window fields)',
      'the pushed Window carries ctx_start/window_start/window_end/ctx_end, the byte positions of exactly those character '
      'ranges, and str = cs.sub(ctx_start, ctx_end); contexts contain the window')
def r3(ctx):
    for fn in ('char', 'byte'):
        b = ctx.body(W + fn)
        pushes = [t for t in b.calls(r'Vec::push$') if 'Window' in b.local_ty(t.args[0].place.local)]
        w = sym(b, pushes[0].args[1])
        _roles(b)
        f = {k: core(agg_field(ctx.facts, w, k)) for k in ('ctx_start', 'window_start', 'window_end', 'ctx_end', 'byte_ctx_start', 'byte_window_start',
                                                            'byte_window_end', 'byte_ctx_end', 'str')}
        eq = lambda x: Pred(lambda u: nosite(core(u)) == nosite(x))
        bc = Call('char_range_to_byte_range', ANY, eq(f['ctx_start']), eq(f['ctx_end']))
        bw = Call('char_range_to_byte_range', ANY, eq(f['window_start']), eq(f['window_end']))
        ok = match(f['byte_ctx_start'], ('field', bc, 0)) and match(f['byte_ctx_end'], ('field', bc, 1)) and \
            match(f['byte_window_start'], ('field', bw, 0)) and match(f['byte_window_end'], ('field', bw, 1))
        ctx.require(ok, b, 'byte-fields|' + fn, '%s: byte fields = char_range_to_byte_range of the same character ranges' % fn,
                    '%s: byte fields are %s' % (fn, {k: show_in(b, v) for k, v in f.items() if k.startswith('byte')}))
        ctx.require(match(f['str'], Call('CharString::sub', ANY, eq(f['ctx_start']), eq(f['ctx_end']))), b, 'str-field|' + fn,
                    '%s: str = cs.sub(ctx_start, ctx_end)' % fn, 'str = %s' % show_in(b, f['str']))
        ws = _var('window_start')
        if fn == 'char':
            ok = match(f['ctx_start'], Call('saturating_sub', ws, ('arg', 3, ANY))) and \
                (match(f['ctx_end'], Call('Ord::min', Call('CharString::len', ANY), ('bin', 'Add', ('bin', 'Add', ws, N(b, 'window_length')), ('arg', 3, ANY)))))
            ctx.require(ok, b, 'context|char', 'char: ctx_start = window_start -sat context, ctx_end = min(len, window_start + window_length + context)',
                        'char: context is (%s, %s)' % (show_in(b, f['ctx_start']), show_in(b, f['ctx_end'])))
        else:
            we = f['window_end']
            if f['ctx_start'][0] in ('var', 'phi') and not has(f['ctx_start'], Call('count_until', ANY, ANY, ANY)):
                # the left context found by an explicit backward walk (a loop-carried position) instead of count_until over the reversed range
                raise AnchorMissing('byte: the left context as window_start - count_until((0..window_start).rev(), context, cs) (it is the loop state `%s`)' % show_in(b, f['ctx_start'])[:40])
            ok = match(f['ctx_start'], Call('saturating_sub', ws, Call('count_until', Pred(lambda u: has(u, Call('Iterator::rev', ('agg', 'adt', Pred(lambda n: n.endswith('Range::Range')), (Const(0), ws)))) or
                                                                                             has(u, ('agg', 'adt', Pred(lambda n: n.endswith('Range::Range')), (Const(0), ws)))), ('arg', 3, ANY), ANY))) and \
                match(f['ctx_end'], ('bin', 'Add', eq(we), Call('count_until', ('agg', 'adt', Pred(lambda n: n.endswith('Range::Range')), (eq(we), Call('CharString::len', ANY))), ('arg', 3, ANY), ANY)))
            ctx.require(ok, b, 'context|byte', 'byte: contexts are count_until over the characters before window_start (reversed) / after window_end with the context budget',
                        'byte: context is (%s, %s)' % (show_in(b, f['ctx_start']), show_in(b, f['ctx_end'])))
            rv_rev = has(f['ctx_start'], Call('Iterator::rev', ANY))
            ctx.require(rv_rev, b, 'left-context-reversed', 'byte: the left context is counted backwards from the window start', None)


@rule('C16', 'R-C16-5', 'T13 PAIR (byte budget)',
      'count_until counts characters while the accumulated byte length INCLUDING the next character stays <= budget: the '
      'character that would exceed the budget is not counted')
def r5(ctx):
    b = ctx.body(W + 'count_until')
    rv = ret_values(b)
    e = {}
    ok = len(rv) == 1 and match(core(rv[0][0]), ('field', Call('into_inner', Call('fold_while', Pred(lambda u: u[0] in ('arg', 'var')), ('agg', 'tuple', '', (Const(0), Const(0))), Cap('clo'))), 0), e)
    if not ok:
        return _count_until_loop(ctx, b, rv)
    ctx.require(ok, b, 'fold', 'count_until = iter.fold_while((0, 0), f).into_inner().0', 'count_until = %s' % [show_in(b, v) for v, _ in rv])
    c = closure_of(ctx, e['clo'])
    kinds = {}
    nxt = ('bin', 'Add', ('field', ('arg', 2, ANY), 1), Call('CharString::char_byte_len', ANY, ('arg', 3, ANY)))
    for v, blk in ret_values(c):
        cv = core(v)
        pol = None
        for tt, p_, g in atoms_at(c, blk):
            ct = core(tt)
            if match(ct, ('bin', 'Gt', nxt, ('upvar', ANY, ANY))):
                pol = p_
            elif match(ct, ('bin', 'Le', nxt, ('upvar', ANY, ANY))):
                pol = not p_
            elif ct[0] == 'bin' and ct[1] in ('Ge', 'Gt', 'Lt', 'Le') and pol is None:
                pol = 'other:' + show_in(c, ct)
        if cv[0] == 'agg' and cv[2].endswith('FoldWhile::Done'):
            kinds['done'] = (pol, match(cv[3][0], ('agg', 'tuple', '', (('field', ('arg', 2, ANY), 0), ('field', ('arg', 2, ANY), 1)))))
        elif cv[0] == 'agg' and cv[2].endswith('FoldWhile::Continue'):
            kinds['continue'] = (pol, match(cv[3][0], ('agg', 'tuple', '', (('bin', 'Add', ('field', ('arg', 2, ANY), 0), Const(1)), nxt))))
    ok = kinds.get('done') == (True, True) and kinds.get('continue') == (False, True)
    ctx.require(ok, c, 'budget-test', 'stop (without counting) when acc + len(next) > budget, else count it and accumulate',
                'count_until step is %s: a character that straddles the budget is counted, a context can exceed the maximum' % kinds)


def _count_until_loop(ctx, b, rv):
    """loop form of count_until: `for idx in iter { let next = acc + len(idx); if next > max { break } count += 1; acc = next }`"""
    from rules.common import iteration_table
    from analysis import poly
    if len(rv) != 1 or core(rv[0][0])[0] != 'var':
        raise AnchorMissing('count_until: neither a fold_while nor a counting loop (returns %s)' % [show_in(b, v)[:60] for v, _ in rv])
    cnt = core(rv[0][0])[2]
    lps = cfg.loops(b)
    if len(lps) != 1:
        raise AnchorMissing('count_until: the counting loop')
    loop = lps[0]
    accs = [l for l in state_locals(b, r'^usize$') if l != cnt]
    if len(accs) != 1:
        raise AnchorMissing('count_until: the byte accumulator (found %d)' % len(accs))
    acc = accs[0]
    rows = iteration_table(b, loop, {'count': cnt, 'acc': acc})
    if not rows:
        raise AnchorMissing('count_until: iteration paths')
    a0 = ('var', b.var_name(acc) or '', acc)
    ok = True
    why = ''
    for r in rows:
        newacc = r['env'].get(acc)
        okr = r['delta']['count'] == 1 and newacc is not None
        if okr:
            d = poly._add(poly.poly(newacc), poly.poly(a0), -1)
            okr = len(d) == 1 and 'char_byte_len' in str(list(d.keys())[0]) and list(d.values()) == [1]
        if okr:
            # the continuing path is taken only when the NEW accumulator is within the budget
            okr = any((pol is False and core(t)[0] == 'bin' and core(t)[1] == 'Gt' and poly.poly(core(t)[2]) == poly.poly(newacc) and match(core(t)[3], ('arg', 2, ANY))) or
                      (pol is True and core(t)[0] == 'bin' and core(t)[1] == 'Le' and poly.poly(core(t)[2]) == poly.poly(newacc) and match(core(t)[3], ('arg', 2, ANY)))
                      for t, pol in r['atoms'])
        if not okr:
            ok = False
            why = 'count += %s, acc := %s under %s' % (r['delta']['count'], show_in(b, newacc)[:60] if newacc is not None else '?',
                                                       [('' if p_ else '!') + show_in(b, t)[:50] for t, p_ in r['atoms']])
    ctx.require(ok, b, 'budget-test', 'a character is counted (and accumulated) only when acc + len(next) <= budget; otherwise the loop stops',
                'count_until step: %s: a character that straddles the budget is counted, a context can exceed the maximum' % why)
    inits = {l: [core(v) for site, v in local_defs(b, l) if site.bb not in loop.blocks] for l in (cnt, acc)}
    ctx.require(all(len(v) == 1 and match(v[0], Const(0)) for v in inits.values()), b, 'fold', 'count and accumulated length start at 0', None)


@rule('C16', 'R-C16-6', 'T11 SIBLING (one segmentation)',
      'every CharString::new of the windows code receives the caller\'s grapheme flag unchanged (a parameter, configuration field or '
      'captured variable): a site that "optimises" the flag (e.g. `use_graphemes && !s.is_ascii()`) segments "\\r\\n" and friends '
      'differently from the sites it must agree with')
def r_segflag(ctx):
    from rules.common import check_segmentation_flag
    n = check_segmentation_flag(ctx, [ctx.body(n) for n in ['windows::char', 'windows::byte', 'windows::windows']], 'windows')
    if n == 0:
        raise AnchorMissing('CharString::new sites of the windows code')


@rule('C16', 'R-C16-7', 'prerequisite (the segmentation primitive)',
      'CharString::new segments by graphemes(true) / chars() selected by the flag alone and keeps byte lengths at full width '
      '(R-C11-6 re-evaluated): every index, length and range of this property is counted in its characters')
def r_charstring(ctx):
    from rules import c11
    c11.charstring_primitive(ctx)


@rule('C16', 'R-C16-8', 'T15 TYPE (no byte slicing with character positions)',
      'the window functions never slice the raw text directly (`&s[a..b]`, `s.get(a..b)`, `split_at`): every range goes through '
      'CharString (char_range_to_byte_range / sub); a character index used as a byte offset panics inside a multi-byte character')
def r8(ctx):
    n = 0
    for fn in (W + 'char', W + 'byte', W + 'windows'):
        b0 = ctx.body(fn)
        for b in [b0] + closures_in(ctx, b0):
            n += 1
            for t in b.calls(r'str.*Index.*::index$|str::get$|str::get_unchecked$|str::split_at$|SliceIndex<str>.*::index$|str::traits::(.*::)?index$'):
                rcv = core(sym(b, t.args[0]))
                ctx.fail(b, 'raw-slice|' + fn.rsplit('::', 1)[-1], '%s slices the raw text `%s` with `%s` at line %d: positions here are character indices, not byte offsets' % (
                    fn, show_in(b, rcv)[:40], (t.callee_res() or '').rsplit('::', 1)[-1], t.span['line']), t.span)
    ctx.ok(None, 'no raw string slicing in the %d window bodies' % n)


def charstring_positions(ctx):
    """the positional accessors of CharString agree with the stored cluster lengths: byte_start_end walks the run-length table with the
    right carries, char_byte_len / char_range_to_byte_range / get / sub are built from it with the right components and bounds.
    ("byte and character boundaries denote the same positions" rests on these; shared by the properties that slice by characters)"""
    from analysis import pathx, poly
    from analysis.alts import flatten, expand
    from rules.common import str_slice, lt_facts_at
    CSX = 'unicode::CharString::'
    SELF = ('arg', 1, ANY)
    BSE = lambda arg: Call(CSX + 'byte_start_end', SELF, arg)
    def scan(b, what):
        """the run scan inside body b (byte_start_end itself, or a function the scan was moved / inlined into): checks guard, carries and initial values; returns (returned value, poly of num_bytes, poly of the start of character n)"""
        loops = cfg.loops(b)
        if len(loops) != 1:
            raise AnchorMissing('the run loop of byte_start_end (found %d loops)' % len(loops))
        lp = loops[0]
        nx = [t for t in b.calls(r'::next$') if t.bb in lp.blocks]
        if len(nx) != 1 or not has(core(loop_source(b, nx[0])), ('field', SELF, 'rle_cluster_lengths')):
            raise AnchorMissing('byte_start_end iterates self.rle_cluster_lengths')
        it = ('unwrap', nosite(sym(b, nx[0].dest)))
        nb_, cnt_ = poly.poly(core(('field', it, 0))), poly.poly(core(('field', it, 1)))
        st_l = [l for l in range(len(b.locals)) if b.var_name(l) == 'start']
        named = {b.var_name(l): l for l in range(len(b.locals)) if b.var_name(l)}
        accs = [l for l in state_locals(b, r'^usize$')]
        rows = {'ret': [], 'back': []}
        for p, end in pathx.paths_from(b, lp.header) or ():
            pe = pathx.eval_versioned(b, p, {}, lambda e, pe_: ())
            if pe is None or end[0] == 'exit':
                continue
            rows['ret' if end[0] == 'return' else 'back'].append((p, pe))
        if len(rows['ret']) != 1 or len(rows['back']) != 1:
            raise AnchorMissing('byte_start_end: one returning and one continuing path per run (found %d / %d)' % (len(rows['ret']), len(rows['back'])))
        (pr, per), (pb, peb) = rows['ret'][0], rows['back'][0]
        n_ = poly.poly(('arg', 2, 'n'))
        ret = peel(per.env.get(0)) if per.env.get(0) is not None else None
        # the accumulators: the two usize state locals; which is which follows from the guard n < total + count
        guard = [(core(t), pol) for t, pol in per.atoms if core(t)[0] == 'bin' and core(t)[1] in ('Lt', 'Le', 'Gt', 'Ge')]
        tot = None
        for l in accs:
            v = ('var', b.var_name(l) or '', l)
            for t, pol in guard:
                lhs, rhs = (t[2], t[3]) if t[1] in ('Lt', 'Le') else (t[3], t[2])
                strict = (t[1] in ('Lt', 'Gt')) == bool(pol) if pol else None
                if pol is True and t[1] in ('Lt', 'Gt') and poly.poly(lhs) == n_ and poly.poly(rhs) == poly._add(poly.poly(v), cnt_, 1):
                    tot = l
        ctx.require(tot is not None, b, 'bse-guard', 'byte_start_end returns from the run that contains n: `n < total_count + count` (strict)',
                    'byte_start_end returns under %s' % [('' if pol else '!') + show_in(b, t)[:60] for t, pol in guard], b.blocks[pr[-1]].term.span)
        if tot is None or ret is None:
            return None
        startl = [l for l in accs if l != tot]
        if len(startl) != 1:
            raise AnchorMissing('byte_start_end: the byte offset accumulator')
        sv, tv = poly.poly(('var', b.var_name(startl[0]) or '', startl[0])), poly.poly(('var', b.var_name(tot) or '', tot))
        want0 = poly._add(sv, poly._mul(nb_, poly._add(n_, tv, -1)), 1)
        ds = peb.env.get(startl[0])
        okds = ds is not None and poly._add(poly.poly(ds), sv, -1) == poly._mul(cnt_, nb_)
        ctx.require(okds, b, 'bse-carry-bytes', 'a skipped run adds count * num_bytes to the byte offset', 'a skipped run changes the byte offset to `%s`' % (show_in(b, ds)[:80] if ds else 'nothing'))
        dt = peb.env.get(tot)
        okdt = dt is not None and poly._add(poly.poly(dt), tv, -1) == cnt_
        if not okdt:
            # `total_count += *count` through AddAssign<&usize>
            okdt = any(e[0] == 'call' and (e[1].callee_res() or '').endswith('add_assign') and core(e[2][0])[0] == 'var' and core(e[2][0])[2] == tot and
                       poly.poly(core(e[2][1])) == cnt_ for e in peb.events)
        ctx.require(okdt, b, 'bse-carry-count', 'a skipped run adds count to the character counter', 'a skipped run does not add its count to the character counter')
        inits = {l: [core(v) for s_, v in local_defs(b, l) if cfg.dominates(b, s_.bb, lp.header)] for l in (startl[0], tot)}
        ctx.require(all(len(v) == 1 and v[0][0] == 'const' and v[0][2] == 0 for v in inits.values()), b, 'bse-init', 'both accumulators start at 0', 'initial values: %s' % inits)
        return ret, nb_, want0, b.blocks[pr[-1]].term.span

    # ---- byte_start_end
    b = ctx.body(CSX + 'byte_start_end')
    sc = scan(b, 'byte_start_end')
    if sc is not None:
        ret, nb_, want0, rspan = sc
        okr = ret[0] == 'agg' and ret[1] == 'tuple' and len(ret[3]) == 2
        ok0 = okr and poly.poly(core(ret[3][0])) == want0
        ok1 = okr and poly._add(poly.poly(core(ret[3][1])), poly.poly(core(ret[3][0])), -1) == nb_
        ctx.require(ok0, b, 'bse-start', 'start of character n = bytes before the run + num_bytes * (n - characters before the run)',
                    'byte_start_end returns the start `%s`' % (show_in(b, ret[3][0])[:100] if okr else show_in(b, ret)[:100]), rspan)
        ctx.require(ok1, b, 'bse-end', 'end of character n = its start + num_bytes of the run', 'byte_start_end returns the end `%s`' % (show_in(b, ret[3][1])[:100] if okr else '?'), rspan)
    # ---- char_byte_len
    c = ctx.body(CSX + 'char_byte_len')
    rv = ret_values(c)
    ok = len(rv) == 1 and match(core(rv[0][0]), ('bin', 'Sub', ('field', BSE(('arg', 2, ANY)), 1), ('field', BSE(('arg', 2, ANY)), 0)))
    if not ok and cfg.loops(c):
        # the run scan itself (moved into a helper that both functions call): the length of character n is the num_bytes of its run
        sc2 = scan(c, 'char_byte_len')
        ok = sc2 is not None and poly.poly(core(sc2[0])) == sc2[1]
    ctx.require(ok, c, 'char-byte-len', 'char_byte_len(n) = end - start of byte_start_end(n)', 'char_byte_len is %s' % [show_in(c, v)[:80] for v, _ in rv])
    # ---- char_range_to_byte_range
    r = ctx.body(CSX + 'char_range_to_byte_range')
    rv = ret_values(r)
    okr2 = len(rv) == 1 and peel(rv[0][0])[0] == 'agg' and len(peel(rv[0][0])[3]) == 2
    if not okr2:
        raise AnchorMissing('(start_byte, end_byte) result of char_range_to_byte_range')
    tup = peel(rv[0][0])[3]
    ctx.require(match(core(init_value(r, tup[0])), ('field', BSE(('arg', 2, ANY)), 0)), r, 'range-start', 'start byte = start of the first character of the range',
                'start byte is %s' % show_in(r, init_value(r, tup[0]))[:80])
    ends = [core(a.value) for a in flatten(expand(ctx.facts, r, nosite(tup[1])))]
    LAST = ('field', BSE(('bin', 'Sub', ('arg', 3, ANY), Const(1))), 1)
    ONLY = ('field', BSE(('arg', 2, ANY)), 1)
    ok = bool(ends) and all(match(e, LAST) or match(e, ONLY) for e in ends) and any(match(e, LAST) for e in ends)
    ctx.require(ok, r, 'range-end', 'end byte = end of the LAST character of the range (character end - 1)', 'end byte can be %s' % [show_in(r, e)[:70] for e in ends])
    pre = any(pol is True and match(core(t), ('bin', 'Le', ('arg', 3, ANY), Call(CSX + 'len', SELF))) for t, pol, g in atoms_at(r, rv[0][1])) and \
        any(pol is True and match(core(t), ('bin', 'Lt', ('arg', 2, ANY), ('arg', 3, ANY))) for t, pol, g in atoms_at(r, rv[0][1]))
    ctx.require(pre, r, 'range-precondition', 'the range is asserted non-empty and inside the text (start < end && end <= len)', None)
    # ---- get
    g_ = ctx.body(CSX + 'get')
    for v, blk in ret_values(g_):
        pv = peel(v)
        if pv[0] == 'agg' and pv[2].endswith('Option::None'):
            ok = any(op == 'Ge' and match(core(x), ('arg', 2, ANY)) and match(core(y), Call(CSX + 'len', SELF)) for op, x, y in cmp_facts_at(g_, blk)) or \
                any(op == 'Le' and match(core(y), ('arg', 2, ANY)) and match(core(x), Call(CSX + 'len', SELF)) for op, x, y in cmp_facts_at(g_, blk))
            ctx.require(ok, g_, 'get-none', 'get(n) is None exactly from n >= len()', None, g_.blocks[blk].term.span)
        elif pv[0] == 'agg' and pv[2].endswith('Option::Some'):
            sl = str_slice(init_value(g_, pv[3][0]))
            ok = sl is not None and match(core(sl[0]), ('field', SELF, 'str')) and sl[1] is not None and sl[2] is not None and \
                match(core(init_value(g_, sl[1])), ('field', BSE(('arg', 2, ANY)), 0)) and match(core(init_value(g_, sl[2])), ('field', BSE(('arg', 2, ANY)), 1))
            ctx.require(ok, g_, 'get-some', 'get(n) = &self.str[start..end] of byte_start_end(n)', 'get(n) is %s' % show_in(g_, pv[3][0])[:100], g_.blocks[blk].term.span)
    # ---- sub
    s_ = ctx.body(CSX + 'sub')
    CL = lambda a: Call('::min', ('arg', a, ANY), Call(CSX + 'len', SELF))
    RNG = Call(CSX + 'char_range_to_byte_range', SELF, CL(2), CL(3))
    n_slices = 0
    for v, blk in ret_values(s_):
        sl = str_slice(init_value(s_, v))
        if sl is None:
            # `if self.is_empty() || start == end { return "" }`: every way to the "" crosses one of the two tests taken as true
            via = [(g.block, g.target) for g in edge_guards(s_) if g.atom()[1] is True and
                   (match(core(g.atom()[0]), Call(CSX + 'is_empty', SELF)) or (core(g.atom()[0])[0] == 'bin' and core(g.atom()[0])[1] == 'Eq'))] + \
                  [(g.block, g.target) for g in edge_guards(s_) if g.atom()[1] is False and core(g.atom()[0])[0] == 'bin' and core(g.atom()[0])[1] == 'Ne']
            ok = match(core(v), Pred(lambda u: u[0] == 'const')) and bool(via) and cfg.must_pass(s_, 0, blk, via_edges=via)
            ctx.require(ok, s_, 'sub-empty', 'sub returns "" only for an empty text or an empty (clamped) range', 'sub returns %s' % show_in(s_, v)[:60], s_.blocks[blk].term.span)
            continue
        n_slices += 1
        ok = match(core(sl[0]), ('field', SELF, 'str')) and sl[1] is not None and sl[2] is not None and \
            match(core(init_value(s_, sl[1])), ('field', RNG, 0)) and match(core(init_value(s_, sl[2])), ('field', RNG, 1))
        ctx.require(ok, s_, 'sub-slice', 'sub(a, b) = &self.str[bytes of the characters min(a, len) .. min(b, len)]', 'sub returns %s' % show_in(s_, init_value(s_, v))[:140],
                    s_.blocks[blk].term.span)
    ctx.require(n_slices == 1, s_, 'sub-one-slice', 'sub has one slicing result', 'found %d' % n_slices)
    # ---- len / is_empty / the stored length
    ln = ctx.body(CSX + 'len')
    rvl = ret_values(ln)
    ctx.require(len(rvl) == 1 and match(core(rvl[0][0]), ('field', SELF, 'len')), ln, 'len', 'len() = the stored number of characters', 'len() is %s' % [show_in(ln, v)[:60] for v, _ in rvl])
    ie = ctx.body(CSX + 'is_empty')
    rvi = ret_values(ie)
    # (the run-length table is empty exactly when there is no character: every run has a count of at least one, R-C16-10 run_length_table)
    ctx.require(len(rvi) == 1 and (match(core(rvi[0][0]), ('bin', 'Eq', ('field', SELF, 'len'), Const(0))) or
                                   match(core(rvi[0][0]), Call('Vec::is_empty', ('field', SELF, 'rle_cluster_lengths'))) or
                                   match(core(rvi[0][0]), ('bin', 'Eq', Call('Vec::len', ('field', SELF, 'rle_cluster_lengths')), Const(0)))), ie, 'is-empty', 'is_empty() = (len == 0)',
                'is_empty() is %s' % [show_in(ie, v)[:60] for v, _ in rvi])
    nw = ctx.body(CSX + 'new')
    rvn = [v for v, _ in ret_values(nw) if peel(v)[0] == 'agg']
    okl = False
    if len(rvn) == 1:
        fl = agg_field(ctx.facts, peel(rvn[0]), 'len')
        rl = agg_field(ctx.facts, peel(rvn[0]), 'rle_cluster_lengths')
        if fl is not None and rl is not None:
            cl = core(fl)
            okl = cl[0] == 'call' and cl[1].endswith('Vec::len') and any(isinstance(x, tuple) and x and nosite(core(x)) == nosite(core(cl[2][0])) for x in walk(core(rl)))
            if not okl and not (cl[0] == 'call' and cl[1].rsplit('::', 1)[-1] == 'len') and not any(
                    isinstance(x, tuple) and x and x[0] == 'call' and x[1].rsplit('::', 1)[-1] in ('len', 'count') for x in walk(cl)):
                # not a length of anything: counted some other way (summed run counts, a counter stepped while segmenting)
                from analysis.reduce import reduce_of
                from analysis.seq import ITEM as _ITM
                r_ = reduce_of(ctx.facts, nw, fl)
                if r_ is not None and r_.op == 'add' and r_.init is not None and match(core(r_.init), Const(0)) and len(r_.segs) == 1 and r_.segs[0].kind == 'each' and \
                        not r_.segs[0].conds and nosite(core(r_.segs[0].src)) == nosite(core(rl)) and core(r_.segs[0].elem) == ('field', _ITM, 1):
                    okl = True      # the sum of the run counts of the table that is stored
                else:
                    raise AnchorMissing('CharString::new: the stored length as the length of the cluster-length vector (it is `%s`)' % show_in(nw, fl)[:80])
    ctx.require(okl, nw, 'stored-len', 'the stored length is the number of cluster lengths the run-length table is built from', None)
    # ---- chars / get_char / Character accessors
    from analysis.seq import seq_of_iter, ITEM as _IT
    from rules.common import range_bounds
    def _char_of(e):
        # Character { str: &self.str[start..end] } with (start, end) = byte_start_end(i): what get_char(i).unwrap() is for i < len
        e = core(e)
        if not (e[0] == 'agg' and e[2].endswith('Character::Character') and len(e[3]) == 1):
            return False
        sl = str_slice(e[3][0])
        return sl is not None and match(core(sl[0]), ('field', ANY, 'str')) and sl[1] is not None and sl[2] is not None and \
            match(core(sl[1]), ('field', Call(CSX + 'byte_start_end', ANY, _IT), 0)) and match(core(sl[2]), ('field', Call(CSX + 'byte_start_end', ANY, _IT), 1))
    ch = ctx.body(CSX + 'chars')
    rvc = ret_values(ch)
    segs = seq_of_iter(ctx.facts, ch, rvc[0][0]) if len(rvc) == 1 else None
    ok = segs is not None and len(segs) == 1 and segs[0].kind == 'each' and not segs[0].conds and range_bounds(segs[0].src) is not None and \
        range_bounds(segs[0].src)[0] == 0 and match(range_bounds(segs[0].src)[1], Call(CSX + 'len', SELF)) and \
        (match(core(segs[0].elem), Call(CSX + 'get_char', ANY, _IT)) or _char_of(segs[0].elem))
    ctx.require(ok, ch, 'chars-all', 'chars() yields get_char(i) for every i in 0..len(), in order', 'chars() is %s' % [repr(x)[:120] for x in segs or ()])
    gc = ctx.body(CSX + 'get_char')
    rvg = ret_values(gc)
    okg = len(rvg) == 1 and match(peel(rvg[0][0]), Call('Option::map', Call(CSX + 'get', SELF, ('arg', 2, ANY)), ANY))
    if okg:
        from analysis.seq import apply_fn
        e = core(apply_fn(ctx.facts, peel(rvg[0][0])[2][1], (('probe',),)))
        okg = e[0] == 'agg' and e[2].endswith('Character::Character') and len(e[3]) == 1 and e[3][0] == ('probe',)
    if not okg:
        # written out: match self.get(n) { Some(str) => Some(Character { str }), None => None }
        from analysis.alts import ret_table
        GET = Call(CSX + 'get', SELF, ('arg', 2, ANY))
        tbl = ret_table(ctx.facts, gc, lambda c: match(c, GET)) or {}
        sm, nn = tbl.get('Some', []), tbl.get('None', [])
        okg = set(tbl) == {'Some', 'None'} and len(sm) == 1 and len(nn) == 1 and peel(nn[0])[0] == 'agg' and peel(nn[0])[2].endswith('Option::None')
        if okg:
            v = peel(sm[0])
            okg = v[0] == 'agg' and v[2].endswith('Option::Some') and core(v[3][0])[0] == 'agg' and core(v[3][0])[2].endswith('Character::Character') and \
                len(core(v[3][0])[3]) == 1 and (match(core(core(v[3][0])[3][0]), GET) or match(core(core(v[3][0])[3][0]), ('field', ('variant', GET, 'Some'), 0)))
    ctx.require(okg, gc, 'get-char', 'get_char(n) = get(n) wrapped into a Character', 'get_char is %s' % [show_in(gc, v)[:80] for v, _ in rvg])
    for fn, pat, what in (('unicode::Character::code_points', Call('str::chars', ('field', SELF, 'str')), 'the code points of its text'),
                          ('unicode::Character::byte_len', Call('str::len', ('field', SELF, 'str')), 'the byte length of its text')):
        x = ctx.body(fn)
        rvx = ret_values(x)
        ctx.require(len(rvx) == 1 and match(core(rvx[0][0]) if fn.endswith('byte_len') else peel(rvx[0][0]), pat), x, 'character|' + fn.rsplit('::', 1)[-1],
                    '%s = %s' % (fn, what), '%s is %s' % (fn, [show_in(x, v)[:80] for v, _ in rvx]))


def run_length_table(ctx):
    """utils::run_length_encode groups equal neighbours (count + 1 on an equal element; otherwise push (value, count), restart at 1; the
    last run is pushed after the loop) and run_length_decode repeats every value count times: the table CharString stores IS the
    sequence of cluster lengths"""
    from rules.common import iteration_table
    from analysis.seq import seq_of_var, ITEM as _IT
    e = ctx.body('utils::run_length_encode')
    named = {e.var_name(l): l for l in range(len(e.locals)) if e.var_name(l)}
    lps = cfg.loops(e)
    ints = state_locals(e, r'^usize$')
    if len(lps) != 1 or len(ints) != 1:
        raise AnchorMissing('run_length_encode: one loop and one counter (found %d / %d)' % (len(lps), len(ints)))
    cnt = ints[0]
    rows = iteration_table(e, lps[0], {'count': cnt}) or []
    if rows and not any(isinstance(row['delta']['count'], int) and row['delta']['count'] != 0 for row in rows):
        # the one usize state is not stepped by a constant anywhere: not a run counter (e.g. the start index of the current run) -- an
        # encoder of another shape, which this rule cannot judge
        raise AnchorMissing('run_length_encode: a counter-based encoder (`%s` is never stepped by a constant)' % (e.var_name(cnt) or 'state'))
    pushes_all = [t for t in e.calls(r'Vec::push$')]
    seen = set()
    for row in rows:
        ps = [(t, a) for t, a in row['calls'] if (t.callee_res() or '').endswith('Vec::push')]
        eq = [pol for t, pol in row['atoms'] if (core(t)[0] == 'bin' and core(t)[1] == 'Eq') or (core(t)[0] == 'call' and core(t)[1].endswith('::eq'))]
        ne = [not pol for t, pol in row['atoms'] if (core(t)[0] == 'bin' and core(t)[1] == 'Ne') or (core(t)[0] == 'call' and core(t)[1].endswith('::ne'))]
        same = (eq + ne)[0] if (eq + ne) else None
        if same is True:
            seen.add('extend')
            ctx.require(not ps and row['delta']['count'] == 1, e, 'rle-extend', 'an element equal to the current run value extends the run by one',
                        'an equal element pushes %d entries and changes the count by %s' % (len(ps), row['delta']['count']))
        elif same is False:
            seen.add('close')
            v = peel(ps[0][1][1]) if len(ps) == 1 else None
            newc = row['env'].get(cnt)
            ok = v is not None and v[0] == 'agg' and v[1] == 'tuple' and len(v[3]) == 2 and core(v[3][1]) == core(('var', e.var_name(cnt) or '', cnt)) and \
                newc is not None and match(core(newc), Const(1))
            ctx.require(ok, e, 'rle-close', 'a different element pushes (run value, count) and restarts the count at 1',
                        'a different element pushes %s and sets the count to %s' % ([show_in(e, a[1])[:60] for t, a in ps], show_in(e, newc)[:30] if newc else 'nothing'))
        else:
            ctx.fail(e, 'rle-path', 'an iteration path of run_length_encode does not compare the element with the run value')
    ctx.require(seen == {'extend', 'close'}, e, 'rle-paths', 'run_length_encode extends or closes a run per element', 'paths: %s' % sorted(seen))
    tail = [t for t in pushes_all if t.bb not in lps[0].blocks]
    ctx.require(len(tail) == 1 and all(cfg.dominates(e, lps[0].header, t.bb) for t in tail), e, 'rle-last-run', 'the last run is pushed after the loop', 'pushes after the loop: %d' % len(tail))
    inits = [core(v) for s_, v in local_defs(e, cnt) if cfg.dominates(e, s_.bb, lps[0].header)]
    ctx.require(len(inits) == 1 and match(inits[0], Const(1)), e, 'rle-init', 'the first run starts with count 1', 'initial count: %s' % inits)
    d = ctx.body('utils::run_length_decode')
    from analysis.seq import seq_of as _seq_of
    rvd = ret_values(d)
    segs = _seq_of(ctx.facts, d, rvd[0][0]) if len(rvd) == 1 else None
    ok = segs is not None and len(segs) == 1 and segs[0].kind == 'nest' and not segs[0].conds and match(core(segs[0].src), ('arg', 1, ANY)) and len(segs[0].inner) == 1
    if ok:
        from rules.common import range_bounds
        inn = segs[0].inner[0]
        rb = range_bounds(inn.src) if inn.kind == 'each' else None
        ok = inn.kind == 'each' and not inn.conds and rb is not None and rb[0] == 0 and rb[1] == ('field', _IT, 1) and core(inn.elem) == ('field', _IT, 0)
        if not ok and inn.kind == 'repeat':
            ok = core(inn.elem) == ('field', _IT, 0) and core(inn.count) == ('field', _IT, 1)
    ctx.require(ok, d, 'rle-decode', 'run_length_decode repeats every value `count` times, in order', 'run_length_decode builds %s' % [repr(x)[:140] for x in segs or ()])


@rule('C16', 'R-C16-10', 'T13 PAIR (character positions <-> byte positions)',
      'CharString::byte_start_end walks the run-length table of cluster lengths with the right carries (bytes += count * num_bytes, '
      'characters += count, return inside the run that contains n); char_byte_len, char_range_to_byte_range (end of the LAST character), '
      'get (None from n >= len) and sub (clamped range, slice of self.str) are built from it: byte and character boundaries of every '
      'window denote the same positions')
def r10(ctx):
    charstring_positions(ctx)
    run_length_table(ctx)


@rule('C16', 'R-C16-11', 'T13 PAIR (the dispatcher hands the configuration through)',
      'windows::windows calls char / byte once per configuration with the limits and the segmentation flag OF THE CONFIGURATION and returns their result '
      'as it is: an error (a character that cannot fit, an impossible configuration) is not retried with other settings -- a retry in code-point mode '
      'returns windows whose boundaries split the grapheme clusters the caller asked for')
def r11(ctx):
    b = ctx.body(W + 'windows')
    bodies = [b] + closures_in(ctx, b)
    want = {'windows::char': 'Character', 'windows::byte': 'Bytes'}
    n = 0
    for x in bodies:
        for t in x.calls(r'windows::(char|byte)$'):
            n += 1
            name = norm_path(t.callee_res())
            var = want.get(name)
            args = [core(resolve(ctx, x, sym(x, a))) for a in t.args]
            ok = len(args) == 4 and all(match(args[i + 1], ('field', ('variant', ('arg', 2, ANY), var), i)) for i in range(3))
            ctx.require(x is b and ok, x, 'dispatch-args|' + name.rsplit('::', 1)[-1], '%s is called with the three fields of WindowConfig::%s' % (name, var),
                        '%s is called with (%s) (line %d): not the limits / segmentation flag of the configuration' % (
                            name, ', '.join(show_in(x, a)[:30] for a in args[1:]), t.span['line']), t.span)
    if n < 2:
        raise AnchorMissing('calls of windows::char and windows::byte in windows::windows (found %d)' % n)
    ctx.require(n == 2, b, 'dispatch-once', 'char and byte are each called once', 'char / byte are called %d times in the dispatcher (a second attempt with other settings?)' % n)
    for v, blk in ret_values(b):
        c = peel(v)
        if c[0] == 'agg':
            continue
        ok = c[0] == 'call' and re.search(r'windows::(char|byte)$', c[1]) is not None
        ctx.require(ok, b, 'dispatch-result', 'the result of char / byte is returned as it is (line %d)' % b.blocks[blk].term.span['line'],
                    'the dispatcher returns %s: the outcome of char / byte is post-processed (an error replaced by another attempt)' % show_in(b, v)[:100], b.blocks[blk].term.span)


def resolve(ctx, body, t):
    """captured variables of a closure of windows::windows, seen from the dispatcher"""
    if body.kind == 'Closure':
        from rules.common import resolve_upvars
        try:
            return resolve_upvars(ctx, body, t)
        except Exception:
            return t
    return t


@rule('C16', 'R-C16-12', 'T13 PAIR (the Python view of a window)',
      'PyWindow::from copies ctx_start / window_start / window_end / ctx_end and the context string of the Window field by field, the string '
      'untouched (no trim / replace / case change): what Python sees is exactly the context slice')
def r12(ctx):
    cands = [b for b in ctx.facts.bodies if b.kind != 'Closure' and b.file() == 'src/windows.rs' and b.path.endswith('::from') and 'PyWindow' in str(b.impl_self)]
    if len(cands) != 1:
        raise AnchorMissing('impl From<Window> for PyWindow (found %d)' % len(cands))
    b = cands[0]
    rv = ret_values(b)
    ok = len(rv) == 1 and peel(rv[0][0])[0] == 'agg'
    if not ok:
        raise AnchorMissing('PyWindow::from: the struct literal it returns')
    v = peel(rv[0][0])
    # Window::boundaries() hands out the four positions as a tuple: component k of it is the field it is built from
    bnd = {}
    for x in ctx.facts.bodies:
        if x.kind != 'Closure' and norm_path(x.path).endswith('windows::Window::boundaries'):
            rvb = ret_values(x)
            if len(rvb) == 1 and peel(rvb[0][0])[0] == 'agg' and peel(rvb[0][0])[1] == 'tuple':
                for k_, comp in enumerate(peel(rvb[0][0])[3]):
                    cc_ = core(comp)
                    if cc_[0] == 'field' and match(cc_[1], ('arg', 1, ANY)):
                        bnd[k_] = cc_[2]

    def same_field(f_, name):
        c_ = core(f_)
        if match(c_, ('field', ('arg', 1, ANY), name)):
            return True
        return c_[0] == 'field' and isinstance(c_[2], int) and match(core(c_[1]), Call('Window::boundaries', ('arg', 1, ANY))) and bnd.get(c_[2]) == name
    for name in ('ctx_start', 'window_start', 'window_end', 'ctx_end'):
        f_ = agg_field(ctx.facts, v, name)
        ctx.require(f_ is not None and same_field(f_, name), b, 'py-field|' + name, 'PyWindow.%s = window.%s' % (name, name),
                    'PyWindow.%s is %s' % (name, show_in(b, f_)[:60] if f_ is not None else 'missing'))
    st = agg_field(ctx.facts, v, 'str')
    chain_ = []
    cur = st
    while isinstance(cur, tuple) and cur and cur[0] == 'call' and cur[2]:
        chain_.append(cur[1].rsplit('::', 1)[-1])
        cur = cur[2][0]
    ok = st is not None and match(core(cur), ('field', ('arg', 1, ANY), 'str')) and all(n_ in ('to_string', 'to_owned', 'into', 'from', 'clone', 'deref', 'as_ref', 'borrow') for n_ in chain_)
    ctx.require(ok, b, 'py-field|str', 'PyWindow.str = window.str, copied as it is',
                'PyWindow.str is %s: the reported string is not the context slice' % (show_in(b, st)[:80] if st is not None else 'missing'))


@rule('C16', 'R-C16-13', 'T3 LOOP-EXIT (the window loop ends at the end of the text only)',
      'the window loops of char() and byte() are left towards Ok(..) only through their head test `window_start < cs.len()`: every other way out '
      'is an error. An extra `break` ("this context already reaches the end of the text") loses the last window: the windows no longer tile the text')
def r13(ctx):
    from analysis.sym import edge_guards
    for fn in ('char', 'byte'):
        b = ctx.body(W + fn)
        pushes = [t for t in b.calls(r'Vec::push$') if 'Window' in b.local_ty(t.args[0].place.local)]
        lps = [l for l in cfg.loops(b) if any(t.bb in l.blocks for t in pushes)]
        if len(lps) != 1:
            raise AnchorMissing('%s: the window loop (found %d)' % (fn, len(lps)))
        lp = lps[0]
        _roles(b)
        rets = ret_values(b)
        n_ok = 0
        for (u, v) in lp.exits(b):
            reach = cfg.reach_const(b, v)
            oks = [blk for x, blk in rets if blk in reach and peel(x)[0] == 'agg' and peel(x)[2].endswith('Result::Ok')]
            if not oks:
                continue       # towards an error (or a panic): not a way to return windows
            gs = [g for g in edge_guards(b) if g.block == u and g.target == v]
            head = False
            for g in gs:
                t_, pol_ = g.atom()
                c_ = core(t_)
                if pol_ is not None and c_[0] == 'bin' and c_[1] in ('Lt', 'Ge', 'Gt', 'Le') and \
                        any(match(core(x), Call('CharString::len', ANY)) or has(init_value(b, x), Call('CharString::len', ANY)) for x in (c_[2], c_[3])) and \
                        any(match(core(x), _var('window_start')) for x in (c_[2], c_[3])):
                    head = True
            n_ok += 1
            ctx.require(head, b, 'window-loop-exit|' + fn, '%s: the window loop returns its windows only when window_start reached the end of the text' % fn,
                        '%s: the window loop can also be left at line %d (on `%s`) and the windows collected so far are returned: the last window(s) are missing' % (
                            fn, b.blocks[u].term.span['line'], show_in(b, gs[0].t)[:60] if gs else '?'), b.blocks[u].term.span)
        if n_ok == 0:
            raise AnchorMissing('%s: an exit of the window loop that leads to Ok(windows)' % fn)
