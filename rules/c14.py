"""C14 Whitespace corruption changes only whitespace and stays label-consistent."""
import re
from analysis.engine import rule, AnchorMissing
from analysis import cfg
from analysis.facts import norm_path
from analysis.sym import sym, show_in, nosite, peel, core, walk, ret_values, args_of, guards_at, atoms_at, \
    variant_facts_at, cmp_facts_at, init_value, edge_guards, const_str, agg_field
from analysis.pat import match, Call, Cap, ANY, Pred, Const, has, chain_names
from rules.common import closure_of, closures_in, resolve_upvars

WS = 'unicode::Character::is_whitespace'
CW = 'data::preprocessing::corrupt_whitespace'


def _anchors(ctx):
    f = ctx.body(CW)
    cl = closures_in(ctx, f, recursive=False)
    if len(cl) != 1:
        raise AnchorMissing('the TextFn closure of corrupt_whitespace (found %d)' % len(cl))
    outer = cl[0]
    inner = closures_in(ctx, outer, recursive=False)
    if len(inner) != 1:
        raise AnchorMissing('the per-character closure of corrupt_whitespace (found %d)' % len(inner))
    return f, outer, inner[0]


@rule('C14', 'R-C14-1', 'T6 NONDET (seeded, position independent draws)',
      'the rng of corrupt_whitespace is ChaCha8Rng::seed_from_u64(info.seed) on every path; exactly one uniform draw is '
      'taken per character before any branching')
def r1(ctx):
    f, outer, inner = _anchors(ctx)
    rngs = [t for t in outer.calls(r'seed_from_u64$|from_os_rng$|from_entropy$|thread_rng$|rand::rng$|from_seed$|from_rng$')]
    ok = len(rngs) == 1 and (rngs[0].callee_res() or '').endswith('seed_from_u64') and \
        match(core(sym(outer, rngs[0].args[0])), ('field', ('arg', 3, ANY), 'seed')) and cfg.dominates(outer, rngs[0].bb, outer.returns[0])
    ctx.require(ok, outer, 'seeded', 'rng = ChaCha8Rng::seed_from_u64(info.seed), unconditionally',
                'rng construction sites: %s (every seed, also 0, must give a deterministic result)' % [
                    (t.callee_res().rsplit('::', 1)[-1], t.span['line']) for t in rngs], rngs[0].span if rngs else None)
    draws = [t for t in inner.calls(r'Rng::random$|Rng::gen$|Rng::random_range$|Rng::random_bool$|Rng::sample$')]
    ok = len(draws) == 1 and all(cfg.dominates(inner, draws[0].bb, r) for r in inner.returns) and cfg.innermost_loop(inner, draws[0].bb) is None
    ctx.require(ok, inner, 'one-draw-per-char', 'one rng.random() per character, before any branch',
                'draws per character: %d (or not on every path): the random stream shifts with the text' % len(draws), draws[0].span if draws else None)
    if draws:
        up = core(sym(inner, draws[0].args[0]))
        cap = resolve_upvars(ctx, inner, up) if up[0] == 'upvar' else None
        seeded = nosite(core(init_value(outer, sym(outer, rngs[0].dest)))) if rngs else None
        ctx.require(cap is not None and cap[0] == 'var' and rngs and
                    (nosite(cap) == nosite(core(sym(outer, rngs[0].dest))) or nosite(core(init_value(outer, cap))) == seeded), inner,
                    'draw-from-seeded-rng', 'the draw uses the captured seeded rng', None)
        ctx.require('f64' in inner.local_ty(draws[0].dest.local), inner, 'draw-type', 'the draw is a uniform f64 in [0,1)', None)


@rule('C14', 'R-C14-2', 'T1 ORDER (what may change)',
      'per character: a whitespace character yields "" only under r < delete_p, otherwise itself; a non-whitespace character '
      'yields " " + itself only under r < insert_p && idx > 0 && !previous_character.is_whitespace(), otherwise itself; '
      'comparisons are strict (probability 0 never fires); the results are joined with ""')
def r2(ctx):
    # the returned text is exactly what the per-character pass produced: one run over enumerate(CS::new(text).chars()), never
    # touched afterwards (a later "make sure something changed" step removes or adds whitespace regardless of the probabilities)
    from analysis.seq import seq_of
    f0 = ctx.body(CW)
    tf = closures_in(ctx, f0, recursive=False)
    if len(tf) == 1:
        for v, blk in ret_values(tf[0]):
            if not (v[0] == 'agg' and v[2].endswith('Result::Ok')):
                continue
            segs = seq_of(ctx.facts, tf[0], v[3][0]) or []
            for sg in segs:
                if sg.kind == 'opaque':
                    ctx.fail(tf[0], 'result-modified|' + str(sg.what), 'the corrupted text is modified by `%s` (line %d) after the per-character pass: whitespace changes that '
                             'are not governed by the insert / delete probabilities' % (sg.what, sg.term.span['line'] if sg.term else 0), sg.term.span if sg.term else None)
            runs = [sg for sg in segs if sg.kind in ('each', 'nest')]
            if len(segs) >= 1 and all(sg.kind != 'opaque' for sg in segs):
                CHARS_ = Call('CharString::chars', Call('CharString::new', ('arg', 2, ANY), ANY))
                from rules.common import range_bounds as _rb
                rb_ = _rb(runs[0].src) if len(runs) == 1 else None
                # ... or over the positions 0..cs.len() of the same CharString
                by_pos = rb_ is not None and rb_[0] == 0 and not isinstance(rb_[1], int) and match(core(rb_[1]), Call('CharString::len', Call('CharString::new', ('arg', 2, ANY), ANY)))
                ctx.require(len(runs) == 1 and len(segs) == 1 and (match(core(runs[0].src), Call('Iterator::enumerate', CHARS_)) or match(core(runs[0].src), CHARS_) or by_pos) and not runs[0].conds,
                            tf[0], 'single-pass', 'the result is one pass over enumerate(CS::new(text, use_graphemes).chars())',
                            'the result is built as %s' % [repr(x)[:120] for x in segs])
    f, outer, inner = _anchors(ctx)
    ch = ('field', ('arg', 2, ANY), 1)
    idx = ('field', ('arg', 2, ANY), 0)
    draw = Call('Rng::random', ANY)
    # captured probabilities resolved to the parameters of corrupt_whitespace(iw_p, dw_p, ..): clamp(arg, 0, 1)
    def prob(argno):
        return Pred(lambda u: u[0] == 'upvar' and match(resolve_upvars(ctx, inner, u), Call('f64::clamp', ('arg', argno, ANY), ANY, ANY)))
    DW, IW = prob(2), prob(1)
    seen = {'empty': 0, 'self': 0, 'space': 0}
    for v, blk in ret_values(inner):
        c = core(v)
        atoms = [(core(t), pol) for t, pol, g in atoms_at(inner, blk)]
        ws_t = any(pol is True and match(t, Call(WS, ch)) for t, pol in atoms)
        ws_f = any(pol is False and match(t, Call(WS, ch)) for t, pol in atoms)
        span = inner.blocks[blk].term.span
        if const_str(c) == '':
            seen['empty'] += 1
            lt = any(pol is True and match(t, ('bin', 'Lt', draw, DW)) for t, pol in atoms)
            ctx.require(ws_t and lt, inner, 'delete-guard', 'a character is removed only if it is whitespace and r < dw_p (strict)',
                        'a character can be removed under %s' % [('' if pol else '!') + show_in(inner, t)[:50] for t, pol in atoms], span)
        elif match(c, ('field', ch, 'str')):
            seen['self'] += 1
        elif match(c, ('bin', 'Add', Pred(lambda t: const_str(t) == ' '), ('field', ch, 'str'))) or \
                (c[0] == 'call' and c[1].endswith('String as std::ops::Add>::add') and const_str(core(c[2][0])) == ' ' and match(core(c[2][1]), ('field', ch, 'str'))):
            seen['space'] += 1
            lt = any(pol is True and match(t, ('bin', 'Lt', draw, IW)) for t, pol in atoms)
            pos = any(pol is True and (match(t, ('bin', 'Gt', idx, Const(0))) or match(t, ('bin', 'Ne', idx, Const(0)))) for t, pol in atoms) or \
                any(pol is False and match(t, ('bin', 'Eq', idx, Const(0))) for t, pol in atoms)
            prev = any(pol is False and match(t, Call(WS, Call('CharString::get_char', ANY, ('bin', 'Sub', idx, Const(1))))) for t, pol in atoms)
            ctx.require(ws_f and lt, inner, 'insert-guard', 'a space is inserted only before a non-whitespace character and under r < iw_p (strict)',
                        None, span)
            ctx.require(pos, inner, 'insert-not-at-start', 'no space is inserted before the first character', 'missing idx > 0', span)
            ctx.require(prev, inner, 'insert-not-after-ws',
                        'no space is inserted after a whitespace CHARACTER (previous Character looked up by character index)',
                        'the "previous is whitespace" test is not `cs.get_char(idx - 1).is_whitespace()` (found %s): a byte index or a different '
                        'lookup inspects the wrong position for multi-byte text and double spaces appear' % [
                            ('' if pol else '!') + show_in(inner, t)[:70] for t, pol in atoms], span)
        else:
            ctx.fail(inner, 'unknown-yield', 'per-character result %s is neither "", the character, nor " " + the character' % show_in(inner, c), span)
    ctx.require(seen['empty'] == 1 and seen['space'] == 1 and seen['self'] >= 2, inner, 'yield-kinds', 'results: one "", one " "+c, otherwise c', 'results: %s' % seen)
    # the get_char receiver is the same CharString that is iterated
    gc = [t for t in inner.calls(r'CharString::get_char$')]
    src = [t for t in outer.calls(r'CharString::chars$')]
    ok = len(gc) == 1 and len(src) == 1
    if ok:
        cap = core(sym(inner, gc[0].args[0]))
        ok = cap[0] == 'upvar'
    ctx.require(ok, inner, 'same-string', 'the previous character is looked up in the iterated CharString', None)
    rv = ret_values(outer)
    oks = [v for v, blk in rv if v[0] == 'agg' and v[2].endswith('Result::Ok')]
    ok = len(oks) == 1
    if ok:
        t = init_value(outer, oks[0][3][0])
        e = {}
        ok = match(t, Call('Itertools::join', Call('Iterator::map', Call('Iterator::enumerate', Call('CharString::chars', Call('CharString::new', ('arg', 2, ANY), ANY))), ANY), Cap('sep')), e) and const_str(e['sep']) == ''
    ctx.require(ok, outer, 'join', 'Ok(CS::new(text).chars().enumerate().map(..).join(""))', None)


@rule('C14', 'R-C14-3', 'T13 PAIR (apply to the selected part only)',
      'apply(part, f) rewrites exactly the selected field from f(&item.<same field>) and keeps the other')
def r3(ctx):
    cands = [b for b in ctx.facts.bodies if b.file() == 'src/data/preprocessing.rs' and re.search(r'preprocessing::apply::\{closure#0\}$', b.path)]
    if len(cands) != 1:
        raise AnchorMissing('closure of preprocessing::apply')
    b = cands[0]
    ctx.stats['bodies_inspected'].add(b.path)
    aggs = []
    for s in b.stmts():
        if s.kind == 'assign' and s.rv.kind == 'agg' and s.rv.agg == 'adt' and s.rv.raw['adt'].endswith('TrainData'):
            aggs.append((s, sym(b, s.lhs) if s.lhs.proj else None, s))
    if len(aggs) != 2:
        raise AnchorMissing('the two TrainData constructions of apply (found %d)' % len(aggs))
    for s, _, _ in aggs:
        from analysis.sym import symbolizer, simplify
        t = simplify(symbolizer(b).rvalue(s.rv, 0, ()))
        vf = variant_facts_at(b, s.bb)
        part = None
        for tt, names in vf:
            if len(names) == 1 and list(names)[0] in ('Input', 'Target'):
                part = list(names)[0]
        if part is None:
            ctx.fail(b, 'part-guard', 'TrainData built at line %d outside a Part arm' % s.span['line'], s.span)
            continue
        fld, other = ('input', 'target') if part == 'Input' else ('target', 'input')
        fv = core(agg_field(ctx.facts, t, fld))
        ov = core(agg_field(ctx.facts, t, other))
        okf = has(fv, Pred(lambda x: isinstance(x, tuple) and x and x[0] == 'call' and 'call' in x[1] and has(x, ('field', ANY, fld)) and not has(x, ('field', ANY, other))))
        oko = match(ov, ('field', ANY, other))
        ctx.require(okf and oko, b, 'apply|' + part, 'Part::%s: %s = f(&item.%s), %s kept' % (part, fld, fld, other),
                    'Part::%s: %s = %s, %s = %s' % (part, fld, show_in(b, fv), other, show_in(b, ov)), s.span)


@rule('C14', 'R-C14-4', 'T2 provenance (label consistency)',
      'the whitespace-correction labels are computed by whitespace::operations(input, target) (shared with C10)')
def r4(ctx):
    from rules import c10
    c10.r5(ctx)
    c10.r4(ctx)


@rule('C14', 'R-C14-5', 'T11 SIBLING (one segmentation)',
      'every CharString::new of the whitespace corruption code receives the caller\'s grapheme flag unchanged (a parameter, configuration field or '
      'captured variable): a site that "optimises" the flag (e.g. `use_graphemes && !s.is_ascii()`) segments "\\r\\n" and friends '
      'differently from the sites it must agree with')
def r_segflag(ctx):
    from rules.common import check_segmentation_flag
    n = check_segmentation_flag(ctx, [ctx.body(n) for n in ['data::preprocessing::corrupt_whitespace']], 'whitespace corruption')
    if n == 0:
        raise AnchorMissing('CharString::new sites of the whitespace corruption code')


@rule('C14', 'R-C14-7', 'prerequisite (the segmentation primitive)',
      'CharString::new segments by graphemes(true) / chars() selected by the flag alone and keeps byte lengths at full width '
      '(R-C11-6 re-evaluated): every index, length and range of this property is counted in its characters')
def r_charstring(ctx):
    from rules import c11
    c11.charstring_primitive(ctx)
    # "whitespace" is Unicode White_Space, decided by the one shared predicate (R-C11-1 re-evaluated): a predicate that also accepts U+200B or
    # U+FEFF lets the corruption delete characters of a clean text that operations() / repair() then put back as a space
    c11.r1(ctx)


@rule('C14', 'R-C14-6', 'T11 SIBLING (configuration reaches the corruption in the same order)',
      'the dispatcher passes the payload of PreprocessingFnConfig::WhitespaceCorruption to corrupt_whitespace positionally '
      '(field 1 -> insert probability, field 2 -> delete probability, field 3 -> grapheme flag), as the parser fills it; operations() '
      'and repair() count in the same unit (Characters) -- no code point / byte count of the raw text')
def r6(ctx):
    d = ctx.body('data::preprocessing::preprocessing')
    cw = [t for t in d.calls(CW + '$')]
    if len(cw) != 1:
        raise AnchorMissing('the call of corrupt_whitespace in the preprocessing dispatcher (found %d)' % len(cw))
    a = [core(sym(d, x)) for x in cw[0].args]
    ok = len(a) == 3 and all(x[0] == 'field' and x[1][0] == 'variant' and x[1][2] == 'WhitespaceCorruption' for x in a) and [x[2] for x in a] == [1, 2, 3]
    ctx.require(ok, d, 'dispatcher-order', 'corrupt_whitespace(payload.1, payload.2, payload.3)',
                'the dispatcher calls corrupt_whitespace(%s): insert and delete probability are exchanged (or the flag is not the configured one), so a delete probability '
                'of 0 no longer keeps every whitespace' % ', '.join(show_in(d, x) for x in a), cw[0].span)
    from rules.common import closures_in
    for fn in ('whitespace::operations', 'whitespace::repair'):
        b0 = ctx.body(fn)
        for b in [b0] + closures_in(ctx, b0):
            for t in b.calls(r'str::chars$|Chars.*::count$|str::char_indices$|str::bytes$'):
                ctx.fail(b, 'raw-count|' + fn.rsplit('::', 1)[-1], '%s counts `%s` of the raw text (line %d): operations() and repair() must both count Characters of '
                         'CS::new(.., use_graphemes), otherwise a correct operation list is rejected for text with multi code point clusters' % (
                             fn, (t.callee_res() or '').rsplit('::', 2)[-2] + '::' + (t.callee_res() or '').rsplit('::', 1)[-1], t.span['line']), t.span)
    ctx.ok(d, 'operations()/repair() measure the text through CharString only')


@rule('C14', 'R-C14-8', 'T4a GUARD (checked subtractions in the whitespace corruption)',
      'every checked subtraction in corrupt_whitespace and its closures has a minuend that is provably >= the subtrahend on every path '
      '(`idx - 1` only under idx > 0): a length expression like `text.len() + cs.len() - 1` underflows for the empty text -- panic with overflow '
      'checks, absurd capacity without -- so corruption no longer yields an output for every clean text')
def r8(ctx):
    from rules.c15 import unguarded_subs
    b0 = ctx.body(CW)
    total = 0
    for b in [b0] + closures_in(ctx, b0):
        ctx.stats['bodies_inspected'].add(b.path)
        bad, n = unguarded_subs(b)
        total += n
        for t, a, c, have in bad:
            ctx.fail(b, 'unguarded-sub|' + norm_path(b.path).rsplit('::', 1)[-1], '%s: `%s - %s` at line %d can underflow (proved lower bound of the minuend: %s)' % (
                norm_path(b.path), show_in(b, a), show_in(b, c), t.span['line'], have), t.span)
    if total < 1:
        raise AnchorMissing('checked subtractions in corrupt_whitespace (found %d)' % total)
    ctx.ok(b0, '%d checked subtractions in corrupt_whitespace inspected' % total)


@rule('C14', 'R-C14-9', 'T13 PAIR (one label per input character: the input is tokenized as plain text)',
      'the whitespace-correction task tokenizes the corrupted input with ignore_special_tokens = true: the labels come from whitespace::operations, one '
      'per character, so the text must not be parsed for special-token spellings (`<pad>` in the text would become ONE token against five labels)')
def r9(ctx):
    cands = [b for b in ctx.facts.bodies if b.file() == 'src/data/task.rs' and list(b.calls(r'whitespace::operations$'))]
    if not cands:
        raise AnchorMissing('the whitespace-correction task function in src/data/task.rs')
    n = 0
    for b in cands:
        ctx.stats['bodies_inspected'].add(b.path)
        for t in b.calls(r'Tokenize>::tokenize$|::tokenize$'):
            if len(t.args) < 3:
                continue
            n += 1
            v = core(sym(b, t.args[2]))
            ctx.require(v[0] == 'const' and len(v) > 2 and v[2] == 1, b, 'plain-text-tokenization', 'the task input is tokenized with ignore_special_tokens = true (line %d)' % t.span['line'],
                        'the task input is tokenized with ignore_special_tokens = %s (line %d): special-token spellings inside the text collapse into one token each, the token ids and the '
                        'per-character labels no longer line up' % (show_in(b, v)[:20], t.span['line']), t.span)
    if n < 1:
        raise AnchorMissing('the tokenize call of the whitespace-correction task (found %d)' % n)
