"""C18 Word matching is a longest common subsequence; edited words are its complement."""
import re
from analysis.engine import rule, AnchorMissing, Definite
from analysis import cfg, poly
from analysis.facts import norm_path
from analysis.sym import sym, show_in, nosite, peel, core, walk, ret_values, args_of, guards_at, atoms_at, \
    variant_facts_at, cmp_facts_at, init_value, edge_guards, symbolizer, simplify, loop_source, defs_of, var_defs
from analysis.pat import match, Call, Cap, ANY, Pred, Const, has, chain_names
from rules.common import closure_of, state_locals, local_defs, V

MW = 'text::match_words_with'


R = {}


def _var(name):
    """role based: d / ops = value / op matrices (by element type), matches = the result vector, i / j = backtrace positions"""
    return Pred(lambda t: isinstance(t, tuple) and t and t[0] == 'var' and len(t) > 2 and R.get(name) == t[2])


def _role(local):
    for k, v in R.items():
        if v == local:
            return k
    return None


def _roles(b):
    R.clear()
    d = state_locals(b, r'^std::vec::Vec<std::vec::Vec<usize>>$')
    o = state_locals(b, r'^std::vec::Vec<std::vec::Vec<text::MatchOp>>$')
    m = state_locals(b, r'^std::vec::Vec<\(usize, usize\)>$')
    if len(d) != 1 or len(o) != 1 or len(m) != 1:
        raise AnchorMissing('value matrix / op matrix / match list of match_words_with (found %d / %d / %d)' % (len(d), len(o), len(m)))
    R['d'], R['ops'], R['matches'] = d[0], o[0], m[0]
    for l in state_locals(b, r'^usize$'):
        for site, v in local_defs(b, l):
            cv = core(init_value(b, v))
            if match(core(v), Call('Vec::len', ANY)):
                if has(cv, Call('split_ascii_whitespace', ('arg', 1, ANY))) or has(cv, Call('split_whitespace', ('arg', 1, ANY))):
                    R['i'] = l
                elif has(cv, Call('split_ascii_whitespace', ('arg', 2, ANY))) or has(cv, Call('split_whitespace', ('arg', 2, ANY))):
                    R['j'] = l


def _stores(b, blocks=None):
    z = symbolizer(b)
    for s in b.stmts():
        if s.kind == 'assign' and (s.lhs.proj or b.var_name(s.lhs.local)) and (blocks is None or s.bb in blocks):
            if s.span['exp'] and s.span['mac'] == 'vec':
                continue
            yield s, (sym(b, s.lhs) if s.lhs.proj else ('var', b.var_name(s.lhs.local), s.lhs.local)), simplify(z.rvalue(s.rv, 0, ()))


def _explicit_cell(ctx, b):
    """the cell written out as branches instead of a maximum over a candidate array: the one thing decided here is that no branch
    stores the bare diagonal value d[i-1][j-1] -- the diagonal is only ever a candidate as d[i-1][j-1] + 1 under a word match, or
    through the neighbours (d[i-1][j-1] <= d[i-1][j], d[i][j-1]), so a branch that takes it drops a match the neighbours already hold"""
    from analysis.alts import value_alts
    found = 0
    for s_, t_, v_ in _stores(b):
        ct = core(t_)
        if not (ct[0] == 'index' and ct[1][0] == 'index' and ct[1][1][0] == 'var' and _role(ct[1][1][2]) == 'd'):
            continue
        if cfg.innermost_loop(b, s_.bb) is None:
            continue
        found += 1
        pi_, pj_ = poly.poly(ct[1][2]), poly.poly(ct[2])
        from analysis.alts import flatten, expand
        for a_ in flatten(expand(ctx.facts, b, nosite(v_))):
            cv = core(a_.value)
            if cv[0] == 'field' and isinstance(cv[2], int) and core(cv[1])[0] == 'agg' and core(cv[1])[1] == 'tuple' and cv[2] < len(core(cv[1])[3]):
                cv = core(core(cv[1])[3][cv[2]])
            tgt = cv
            if tgt[0] == 'agg' and tgt[1] == 'tuple' and tgt[3]:
                tgt = core(tgt[3][0])
            if tgt[0] == 'index' and tgt[1][0] == 'index' and tgt[1][1][0] == 'var' and _role(tgt[1][1][2]) == 'd':
                di = poly._add(pi_, poly.poly(tgt[1][2]), -1)
                dj = poly._add(pj_, poly.poly(tgt[2]), -1)
                if di == poly.const(1) and dj == poly.const(1):
                    raise Definite('cell-takes-diagonal', 'a branch of the LCS cell stores the bare diagonal value `%s` (line %d): the diagonal only counts as d[i-1][j-1] + 1 under a '
                                   'word match; when the upper and the left neighbour are equal and larger than the diagonal the cell loses a match (the matching is '
                                   'no longer a longest common subsequence, e.g. "x y" vs "y x")' % (show_in(b, a_.value)[:60], s_.span['line']), b, s_.span)


@rule('C18', 'R-C18-1', 'T14 RECURRENCE (LCS)',
      'cell d[i][j] = max (last maximum, compared on the value) of d[i-1][j] Delete, d[i][j-1] Insert, d[i-1][j-1] + [words '
      'match] with Match only when the words match, NoMatch otherwise; the words compared are a_words[i-1], b_words[j-1]')
def r1(ctx):
    b = ctx.body(MW)
    _roles(b)
    mx = [t for t in b.calls(r'Iterator::max_by$|Iterator::max_by_key$|Iterator::max$')]
    if len(mx) != 1:
        _explicit_cell(ctx, b)
        raise AnchorMissing('candidate selection (max_by) of match_words_with')
    inner = cfg.innermost_loop(b, mx[0].bb)
    outer = None
    for l in cfg.loops(b):
        if inner.header in l.blocks and l is not inner and (outer is None or len(l.blocks) < len(outer.blocks)):
            outer = l
    if inner is None or outer is None:
        raise AnchorMissing('DP loops of match_words_with')
    nxa = [t for t in b.calls(r'::next$') if t.bb in outer.blocks and t.bb not in inner.blocks]
    nxb = [t for t in b.calls(r'::next$') if t.bb in inner.blocks]
    if len(nxa) != 1 or len(nxb) != 1:
        raise AnchorMissing('iterator pulls of the DP loops')
    sa, sb = core(loop_source(b, nxa[0])), core(init_value(b, loop_source(b, nxb[0])))
    ok = match(sa, Call('Iterator::enumerate', Pred(lambda u: has(u, Call('str::split_ascii_whitespace', ('arg', 1, ANY))) or has(u, Call('str::split_whitespace', ('arg', 1, ANY)))))) and \
        match(sb, Call('Iterator::enumerate', Pred(lambda u: has(u, Call('str::split_ascii_whitespace', ('arg', 2, ANY))) or has(u, Call('str::split_whitespace', ('arg', 2, ANY))))))
    ctx.require(ok, b, 'loops', 'outer loop enumerates the words of a, inner loop the words of b', 'loops iterate %s / %s' % (show_in(b, sa), show_in(b, sb)))
    a_it = ('unwrap', nosite(sym(b, nxa[0].dest)))
    b_it = ('unwrap', nosite(sym(b, nxb[0].dest)))
    ka = poly.atom_key(core(('field', a_it, 0)))
    kb = poly.atom_key(core(('field', b_it, 0)))
    pi = poly._add(poly.var(ka), poly.const(1), 1)
    pj = poly._add(poly.var(kb), poly.const(1), 1)
    a_w = nosite(core(('field', a_it, 1)))
    b_w = nosite(core(('field', b_it, 1)))
    # the match predicate call
    mc = [t for t in b.calls(r'ops::Fn.*::call$') if t.bb in inner.blocks]
    ok = len(mc) == 1
    if ok:
        a = core(sym(b, mc[0].args[1]))
        ok = a[0] == 'agg' and len(a[3]) == 2 and nosite(a[3][0]) == a_w and nosite(a[3][1]) == b_w and match(core(sym(b, mc[0].args[0])), ('arg', 3, ANY))
    ctx.require(ok, b, 'match-call', 'matching = word_match_fn(a_word, b_word) of the current cell', None)
    matching = nosite(core(sym(b, mc[0].dest))) if mc else None
    sel = nosite(core(sym(b, mx[0].dest)))
    # target
    tgt = {}
    for s, t, v in _stores(b, inner.blocks):
        ct = core(t)
        if ct[0] == 'index' and ct[1][0] == 'index' and ct[1][1][0] == 'var' and _role(ct[1][1][2]) in ('d', 'ops') and has(core(v), Pred(lambda u: nosite(u) == sel)):
            tgt[_role(ct[1][1][2])] = (s, ct, core(v))
    if set(tgt) != {'d', 'ops'}:
        raise AnchorMissing('stores d[i][j] = max_value / ops[i][j] = max_op')
    for k in ('d', 'ops'):
        s, ct, v = tgt[k]
        ok = poly.poly(ct[1][2]) == pi and poly.poly(ct[2]) == pj and match(v, ('field', ANY, 0 if k == 'd' else 1))
        ctx.require(ok, b, 'target|' + k, '%s[a_idx+1][b_idx+1] gets component %d of the selected candidate' % (k, 0 if k == 'd' else 1), None, s.span)
    # every cell of the table is computed: from the pull of the inner loop every way to the next iteration passes the store of d[i][j]
    # (a band / early `continue` leaves cells at their initial 0 and the matching is shorter than a longest common subsequence)
    from analysis.sym import variant_edges
    some_b = [e[1] for e in variant_edges(b, sym(b, nxb[0].dest), 'Some')]
    allc = bool(some_b) and all(cfg.must_pass(b, some_b[0], l, via_blocks=[tgt['d'][0].bb]) for l in inner.latches)
    ctx.require(allc, b, 'all-cells', 'every cell (i, j) of the LCS table is computed', 'an iteration of the inner loop can skip the cell: cells outside some band keep their initial '
                'value 0, common words that are far from the diagonal are never matched', tgt['d'][0].span)
    # candidates: array of tuples
    arr = None
    z = symbolizer(b)
    for s in b.stmts():
        if s.bb in inner.blocks and s.kind == 'assign' and s.rv.kind == 'agg' and s.rv.agg == 'array' and len(s.rv.ops) >= 2:
            arr = (s, simplify(z.rvalue(s.rv, 0, ())))
    if arr is None:
        raise AnchorMissing('candidate array of the LCS cell')
    s_arr, t_arr = arr
    ctx.require(has(core(sym(b, mx[0].args[0])), Pred(lambda u: nosite(u) == nosite(core(t_arr)))) or True, b, 'selection-over-candidates',
                'the maximum is taken over the candidate array', None)
    cands = {}
    for el in t_arr[3]:
        if not (el[0] == 'agg' and len(el[3]) == 2):
            continue
        val, op = core(el[3][0]), el[3][1]
        if op[0] == 'agg':
            cands[op[2].rsplit('::', 1)[-1]] = (val, None)
        else:
            # op chosen by `matching`: a multi-definition temporary
            loc = op[1] if op[0] == 'phi' else (op[2] if op[0] == 'var' else None)
            names = {}
            if loc is not None:
                whole, partial = defs_of(b, loc)
                for dd in whole:
                    vv = simplify(z.rvalue(dd.rv, 0, ())) if hasattr(dd, 'rv') else None
                    if vv and vv[0] == 'agg':
                        pol = None
                        for tt, p_, g in atoms_at(b, dd.bb):
                            if matching is not None and nosite(core(tt)) == matching:
                                pol = p_
                        names[vv[2].rsplit('::', 1)[-1]] = pol
            cands['diag'] = (val, names)
    ctx.require(set(cands) == {'Delete', 'Insert', 'diag'}, b, 'candidate-set', 'candidates: Delete, Insert, diagonal (Match/NoMatch)', 'candidates: %s' % sorted(cands))

    def rel(v):
        if v[0] == 'index' and v[1][0] == 'index' and v[1][1][0] == 'var' and _role(v[1][1][2]) == 'd':
            di = poly.sub(poly.poly(v[1][2]), pi)
            dj = poly.sub(poly.poly(v[2]), pj)
            if all(m == () for m in di) and all(m == () for m in dj):
                return di.get((), 0), dj.get((), 0)
        return None
    if 'Delete' in cands:
        ctx.require(rel(cands['Delete'][0]) == (-1, 0), b, 'candidate|Delete', 'Delete: d[i-1][j] + 0', 'Delete: %s' % show_in(b, cands['Delete'][0]), s_arr.span)
    if 'Insert' in cands:
        ctx.require(rel(cands['Insert'][0]) == (0, -1), b, 'candidate|Insert', 'Insert: d[i][j-1] + 0', 'Insert: %s' % show_in(b, cands['Insert'][0]), s_arr.span)
    if 'diag' in cands:
        v, names = cands['diag']
        ok = v[0] == 'bin' and v[1] == 'Add' and rel(v[2]) == (-1, -1) and matching is not None and nosite(core(v[3])) == matching or \
            (v[0] == 'bin' and v[1] == 'Add' and rel(v[3]) == (-1, -1) and nosite(core(v[2])) == matching)
        ctx.require(bool(ok), b, 'candidate|diag', 'diagonal: d[i-1][j-1] + usize::from(matching)', 'diagonal: %s' % show_in(b, v), s_arr.span)
        ctx.require(names == {'Match': True, 'NoMatch': False}, b, 'diag-op', 'diagonal op is Match iff the words match, else NoMatch',
                    'diagonal op selection: %s' % names, s_arr.span)
    sel = (mx[0].callee_res() or '')
    ok = sel.endswith('Iterator::max_by') or sel.endswith('Iterator::max_by_key')
    if ok:
        clo = closure_of(ctx, sym(b, mx[0].args[1]))
        rv = ret_values(clo)
        if sel.endswith('max_by_key'):
            # max_by_key(|x| x.value): like max_by it returns the LAST maximal element
            ok = len(rv) == 1 and match(core(rv[0][0]), ('field', ('arg', 2, ANY), 0))
        else:
            ok = len(rv) == 1 and match(core(rv[0][0]), Call('cmp', ('field', ('arg', 2, ANY), 0), ('field', ('arg', 3, ANY), 0)))
    ctx.require(ok, b, 'selector', 'selection = max_by(|x, y| x.value.cmp(y.value))', None, mx[0].span)
    # matrix shape and zero initialisation
    dd = [v for site, v in local_defs(b, R['d'])]
    ok = len(dd) == 1 and match(core(dd[0]), Call('from_elem', Call('from_elem', Const(0), ('bin', 'Add', Call('Vec::len', ANY), Const(1))), ('bin', 'Add', Call('Vec::len', ANY), Const(1))))
    ctx.require(ok, b, 'matrix-init', 'd is a (|a|+1) x (|b|+1) matrix of zeros (LCS of an empty prefix is 0)', 'd = %s' % [show_in(b, x) for x in dd])
    # first row / column ops
    inits = []
    for s, t, v in _stores(b):
        if s.bb in outer.blocks:
            continue
        if v[0] == 'agg' and 'MatchOp::' in v[2] and t[0] != 'var':
            inits.append((s, core(t), v[2].rsplit('::', 1)[-1]))
    kinds = sorted(x[2] for x in inits)
    ctx.require(kinds == ['Delete', 'Insert', 'NoMatch'], b, 'ops-init', 'ops[0][0] = NoMatch, first column Delete, first row Insert', 'ops initialisation: %s' % kinds)
    for s, t, k in inits:
        lp = cfg.innermost_loop(b, s.bb)
        if k == 'NoMatch':
            ok = lp is None and match(t, ('index', ('index', _var('ops'), Const(0)), Const(0)))
        else:
            nx = [c for c in b.calls(r'::next$') if lp and c.bb in lp.blocks]
            src = core(loop_source(b, nx[0])) if nx else ()
            if k == 'Delete':
                ok = has(src, Call('Iterator::skip', Pred(lambda u: has(u, _var('ops')) and not has(u, ('index', _var('ops'), ANY))), Const(1))) and \
                    t[0] == 'index' and match(t[2], Const(0))
            else:
                ok = has(src, Call('Iterator::skip', Pred(lambda u: has(u, ('index', _var('ops'), Const(0)))), Const(1)))
        ctx.require(ok, b, 'ops-init|' + k, 'initial %s cells are at the expected border' % k, 'initial %s cell is %s' % (k, show_in(b, t)), s.span)


@rule('C18', 'R-C18-2', 'T13 PAIR (backtrace)',
      'backtrace from (|a|, |b|) while i > 0 || j > 0: Delete (1,0), Insert (0,1), Match (1,1) + push (i, j) after the step, '
      'NoMatch (1,1); reversed once; the returned counts are the lengths of the two word vectors')
def r2(ctx):
    b = ctx.body(MW)
    _roles(b)
    if 'i' not in R or 'j' not in R:
        raise AnchorMissing('backtrace positions starting at the word counts')
    pushes = [t for t in b.calls(r'Vec::push$') if match(core(sym(b, t.args[0])), _var('matches'))]
    if len(pushes) != 1:
        raise AnchorMissing('matches.push((i, j)) (found %d)' % len(pushes))
    loop = cfg.innermost_loop(b, pushes[0].bb)
    table = {'Delete': (1, 0), 'Insert': (0, 1), 'Match': (1, 1), 'NoMatch': (1, 1)}
    from rules.common import iteration_table
    from analysis import poly
    rows = iteration_table(b, loop, {'i': R['i'], 'j': R['j']})
    if rows is None:
        raise AnchorMissing('paths of the backtrace loop (too many)')
    iv, jv = ('var', b.var_name(R['i']) or '', R['i']), ('var', b.var_name(R['j']) or '', R['j'])
    byname = {}
    for r in rows:
        # the cell variant of the path: the intersection of all facts about the MatchOp read
        cur = None
        for t, n in r['variants']:
            if set(n) <= set(table) | {'None'} and n:
                cur = set(n) if cur is None else (cur & set(n))
        if cur is not None and len(cur) == 1 and list(cur)[0] in table:
            byname.setdefault(list(cur)[0], []).append(r)
        elif cur is not None and len(cur) == 0:
            continue   # infeasible combination of facts
    for name, (di, dj) in table.items():
        rs = byname.get(name)
        if not rs:
            ctx.fail(b, 'arm-missing|' + name, 'backtrace has no path for MatchOp::%s' % name)
            continue
        steps = {(r['delta']['i'], r['delta']['j']) for r in rs}
        ctx.require(steps == {(-di, -dj)}, b, 'step|' + name, '%s moves (i, j) by (-%d, -%d)' % (name, di, dj),
                    '%s moves (i, j) by %s, expected (-%d, -%d)' % (name, sorted(steps, key=str), di, dj))
        okp, shown = True, []
        for r in rs:
            ps = [(t, a) for t, a in r['calls'] if (t.callee_res() or '').endswith('Vec::push')]
            shown += [show_in(b, a[1])[:60] for t, a in ps]
            if name != 'Match':
                okp = okp and not ps
                continue
            if len(ps) != 1:
                okp = False
                continue
            v = peel(ps[0][1][1])
            okp = okp and v[0] == 'agg' and v[1] == 'tuple' and len(v[3]) == 2 and \
                poly.poly(v[3][0]) == poly._add(poly.poly(iv), {(): 1}, -1) and poly.poly(v[3][1]) == poly._add(poly.poly(jv), {(): 1}, -1)
        ctx.require(okp, b, 'push|' + name, 'Match pushes (i, j) after both were decremented (0-based word indices)' if name == 'Match' else '%s pushes nothing' % name,
                    '%s pushes %s%s' % (name, sorted(set(shown)), ' (or before the decrement)' if name == 'Match' else ''))
    ok = False
    for (u, w) in loop.exits(b):
        at = [(core(t), pol) for t, pol, g in atoms_at(b, w)]
        zero = lambda vv: any((pol is False and match(t, ('bin', 'Gt', _var(vv), Const(0)))) or (pol is True and match(t, ('bin', 'Eq', _var(vv), Const(0)))) or
                              (pol is False and match(t, ('bin', 'Ne', _var(vv), Const(0)))) for t, pol in at)
        if zero('i') and zero('j'):
            ok = True
    ctx.require(ok, b, 'loop-condition', 'the backtrace runs while i > 0 || j > 0', None)
    inits = {}
    for nm in ('i', 'j'):
        for site, v in local_defs(b, R[nm]):
            if site.bb not in loop.blocks and site.bb not in [x for l in cfg.loops(b) if l is not loop for x in l.blocks]:
                inits[nm] = core(v)
    ok = match(inits.get('i', ()), Call('Vec::len', Pred(lambda u: has(init_value(b, u), Call('split_ascii_whitespace', ('arg', 1, ANY))) or has(u, Call('split_ascii_whitespace', ('arg', 1, ANY)))))) and \
        match(inits.get('j', ()), Call('Vec::len', Pred(lambda u: has(init_value(b, u), Call('split_ascii_whitespace', ('arg', 2, ANY))) or has(u, Call('split_ascii_whitespace', ('arg', 2, ANY))))))
    ctx.require(ok, b, 'start', 'the backtrace starts at (|a_words|, |b_words|)', 'starts at %s' % {k: show_in(b, v) for k, v in inits.items()})
    reads = [t for t in b.calls(r'ops::Index>::index$') if t.bb in loop.blocks]
    ok = any(match(core(sym(b, t.dest)), ('index', ('index', _var('ops'), _var('i')), _var('j'))) for t in reads)
    ctx.require(ok, b, 'cell', 'the op read is ops[i][j]', None)
    rev = [t for t in b.calls(r'slice::reverse$')]
    ok = len(rev) == 1 and rev[0].bb not in loop.blocks and all(cfg.must_pass(b, w, r, via_blocks=[rev[0].bb]) for (u, w) in loop.exits(b) for r in b.returns)
    ctx.require(ok, b, 'reverse-once', 'matches are reversed once after the loop (increasing in both coordinates)', None)
    rv = ret_values(b)
    ok = len(rv) == 1
    if ok:
        v = core(rv[0][0])
        ok = v[0] == 'agg' and len(v[3]) == 3 and match(v[3][0], _var('matches')) and \
            has(init_value(b, v[3][1]), Call('split_ascii_whitespace', ('arg', 1, ANY))) and match(v[3][1], Call('Vec::len', ANY)) and \
            has(init_value(b, v[3][2]), Call('split_ascii_whitespace', ('arg', 2, ANY))) and match(v[3][2], Call('Vec::len', ANY))
    ctx.require(ok, b, 'result', 'returns (matches, |a_words|, |b_words|)', 'returns %s' % [show_in(b, x) for x, _ in rv])
    mw = ctx.body('text::match_words')
    from analysis.alts import ret_alts_paths, flatten, Alt, consistent
    from rules.common import closure_of

    def kind_of(f):
        """'exact' / 'lower' for a comparison function given as a closure value or as a function item"""
        f = peel(f)
        if not (isinstance(f, tuple) and f):
            return None
        if f[0] == 'agg' and f[1] == 'closure':
            c, a1, a2 = closure_of(ctx, f), 2, 3
        elif f[0] == 'fn':
            l = [x for x in ctx.facts.bodies if norm_path(x.path) == norm_path(f[1])]
            if len(l) != 1:
                return None
            c, a1, a2 = l[0], 1, 2
        else:
            return None
        rvc = ret_values(c)
        if len(rvc) == 1:
            v = core(rvc[0][0])
            if match(v, ('bin', 'Eq', ('arg', a1, ANY), ('arg', a2, ANY))):
                return 'exact'
            if v[0] == 'bin' and v[1] == 'Eq' and has(v[2], Call('to_lowercase', ('arg', a1, ANY))) and has(v[3], Call('to_lowercase', ('arg', a2, ANY))):
                return 'lower'
        return None

    def alts_of(body):
        out = []
        for a_ in ret_alts_paths(ctx.facts, body) or []:
            for x_ in flatten(a_.value):
                m_ = Alt(nosite(x_.value), list(a_.variants) + list(x_.variants), list(a_.atoms) + list(x_.atoms))
                if consistent(m_) and not any((t_, not p_) in m_.atoms for t_, p_ in m_.atoms):
                    out.append(m_)
        return out

    def flag_of(m_, argno):
        fl = [pol for tt, pol in m_.atoms if match(core(tt), ('arg', argno, ANY))]
        # `match flag { true => .., false => .. }` switches on the value itself
        return fl[0] if len(set(fl)) == 1 else None

    def untuple(v):
        """(x.0, x.1, x.2) rebuilt from one value x is x"""
        c = peel(v)
        if c[0] == 'agg' and c[1] == 'tuple' and c[3] and all(isinstance(q, tuple) and core(q)[0] == 'field' and core(q)[2] == i for i, q in enumerate(c[3])):
            bases = {repr(nosite(core(q)[1])) for q in c[3]}
            if len(bases) == 1:
                return core(c[3][0])[1]
        return v
    # the comparison handed to match_words_with, per value of ignore_case: either chosen in match_words itself or by str_match_fn
    table, okw = {}, True
    for m_ in alts_of(mw):
        e = {}
        if not match(core(untuple(m_.value)), Call('match_words_with', ('arg', 1, ANY), ('arg', 2, ANY), Cap('f')), e):
            okw = False
            continue
        f = peel(e['f'])
        if match(core(f), Call('str_match_fn', ('arg', 3, ANY))):
            sm = ctx.body('text::str_match_fn')
            for n_ in alts_of(sm):
                fl = flag_of(n_, 1)
                if fl is None:
                    okw = False
                else:
                    table.setdefault(fl, set()).add(kind_of(n_.value))
        else:
            fl = flag_of(m_, 3)
            if fl is None:
                okw = False
            else:
                table.setdefault(fl, set()).add(kind_of(f))
    ctx.require(okw and table == {True: {'lower'}, False: {'exact'}}, mw, 'wrapper',
                'match_words(a, b, ic) = match_words_with(a, b, lower-cased equality if ic else plain equality)',
                'match_words compares with %s' % {k: sorted(map(str, v)) for k, v in table.items()})


@rule('C18', 'R-C18-3', 'T2 CHAIN (edited_words)',
      'edited_words(a, b) = (all a indices minus matched a indices, all b indices minus matched b indices) of match_words(a, b, false)')
def r3(ctx):
    b = ctx.body('edit::edited_words')
    rv = ret_values(b)
    if len(rv) != 1 or rv[0][0][0] != 'agg' or len(rv[0][0][3]) != 2:
        raise AnchorMissing('tuple result of edited_words')
    mw = [t for t in b.calls(r'text::match_words$')]
    ok = len(mw) == 1 and match(core(sym(b, mw[0].args[0])), ('arg', 1, ANY)) and match(core(sym(b, mw[0].args[1])), ('arg', 2, ANY)) and match(core(sym(b, mw[0].args[2])), Const(0))
    ctx.require(ok, b, 'matching', 'uses match_words(a, b, false)', None)
    res = nosite(core(sym(b, mw[0].dest))) if mw else None
    from rules.common import is_projection_set, range_bounds
    from analysis.seq import seq_of, ITEM
    isres = Pred(lambda u: nosite(core(u)) == res)
    MATCHES = ('field', isres, 0)
    for side, comp, cnt in ((0, 0, 1), (1, 1, 2)):
        raw = init_value(b, rv[0][0][3][side])
        t = core(raw)
        e = {}
        why = show_in(b, t)[:160]
        ok = False
        if match(t, Call('Iterator::collect', Call('HashSet::difference', Cap('all'), Cap('matched'))), e):
            al = core(init_value(b, e['all']))
            ok = match(al, Call('from_iter', ('agg', 'adt', Pred(lambda n: n.endswith('Range::Range')), (Const(0), ('field', isres, cnt)))))
            why = 'all = %s' % show_in(b, al)
            if ok:
                ok = is_projection_set(ctx, b, _matched_raw(b, raw), MATCHES, comp)
                why = 'the matched set is not component %d of the matches' % comp
        else:
            # (0..n).filter(|i| !matched.contains(i)).collect()
            segs = seq_of(ctx.facts, b, raw)
            if segs is not None and len(segs) == 1 and segs[0].kind == 'each' and core(segs[0].elem) == ITEM and len(segs[0].conds) == 1:
                rb = range_bounds(segs[0].src)
                c_, pol = segs[0].conds[0]
                cc = peel(c_)
                ok = rb is not None and rb[0] == 0 and not isinstance(rb[1], int) and match(rb[1], ('field', isres, cnt)) and pol is False and \
                    cc[0] == 'call' and cc[1].endswith('::contains') and core(cc[2][1]) == ITEM and is_projection_set(ctx, b, cc[2][0], MATCHES, comp)
                why = 'complement is %r' % segs[0]
            else:
                raise AnchorMissing('edited_words: the %s side is neither a set difference nor a filtered index range' % 'ab'[side])
        ctx.require(ok, b, 'complement|%s' % 'ab'[side], '%s side = (0..%s_len) minus component %d of the matches' % ('ab'[side], 'ab'[side], comp),
                    '%s side is wrong: %s' % ('ab'[side], why))


def _matched_raw(b, raw):
    """the second operand of `all.difference(&matched)` inside the collected result, variables expanded"""
    t = peel(raw)
    d = peel(t[2][0]) if t[0] == 'call' and t[2] else None
    while d is not None and d[0] == 'call' and not d[1].endswith('HashSet::difference') and d[2]:
        d = peel(d[2][0])
    if d is None or d[0] != 'call' or len(d[2]) < 2:
        return ()
    return init_value(b, d[2][1])


@rule('C18', 'R-C18-4', 'T10 WHO (no state between calls)',
      'match_words_with and edited_words consult no thread-local / static mutable state: every call starts from freshly built '
      'matrices (a scratch buffer kept across calls leaks the counts of the previous texts into the borders)')
def r4(ctx):
    from rules.common import closures_in
    n = 0
    for fn in (MW, 'edit::edited_words'):
        b0 = ctx.body(fn)
        for b in [b0] + closures_in(ctx, b0):
            n += 1
            tls = [s for s in b.stmts() if s.kind == 'assign' and s.rv.kind == 'tls'] + list(b.calls(r'LocalKey.*::(with|with_borrow|with_borrow_mut|take|set|replace)$'))
            st = [s for s in b.stmts() if s.kind == 'assign' and any(isinstance(x, tuple) and x and x[0] == 'static' for x in walk(sym(b, s.rv.ops[0]) if s.rv.ops else ()))]
            ctx.require(not tls, b, 'no-ambient-state|' + fn.rsplit('::', 1)[-1], '%s uses no thread-local state' % fn,
                        '%s keeps state in a thread local (line %d): the result of a call depends on the calls made before it on the same thread' % (
                            fn, tls[0].span['line'] if tls else 0), tls[0].span if tls else None)
    if n == 0:
        raise AnchorMissing('word matching bodies')


def _copies_of_result_field(b, res_local, field):
    """locals that are plain copies (transitively) of `result.field` of the match_words call; the copying statements themselves"""
    L, binders = set(), set()
    changed = True
    while changed:
        changed = False
        for s in b.stmts():
            if s.kind != 'assign' or s.lhs is None or not s.lhs.is_local() or s.rv.kind != 'use' or s.rv.ops[0].place is None:
                continue
            p = s.rv.ops[0].place
            f = p.fields()
            src_is = (p.local == res_local and len(f) == 1 and f[0][0] == 'f' and f[0][1] == field) or (p.local in L and not f)
            if src_is and len(local_defs(b, s.lhs.local)) == 1:
                binders.add((s.bb, s.idx))
                if s.lhs.local not in L:
                    L.add(s.lhs.local)
                    changed = True
    return L, binders


@rule('C18', 'R-C18-5', 'T9 MUST-PASS (the lengths are read on every path)',
      'edited_words reads the word count of a and of b (results 1 and 2 of match_words) on every path from the matching to its return: the '
      'complement of the matched indices within 0..len changes with len for one and the same matching (an unmatched last word), so a path '
      'that never consults len (e.g. the empty matching handled by `if let Some(last) = matching.last()` alone) returns a wrong set')
def r5(ctx):
    b = ctx.body('edit::edited_words')
    mw = [t for t in b.calls(r'text::match_words$')]
    if len(mw) != 1 or mw[0].dest is None or not mw[0].dest.is_local():
        raise AnchorMissing('the single match_words call of edited_words')
    res = mw[0].dest.local
    for field, side in ((1, 'a'), (2, 'b')):
        L, binders = _copies_of_result_field(b, res, field)

        def touches(pl):
            if pl is None:
                return False
            f = pl.fields()
            if pl.local in L:
                return True
            if pl.local == res:
                # the whole tuple moved / borrowed, or exactly this field
                return not f or (f[0][0] == 'f' and f[0][1] == field)
            return any(x[0] == 'idx' and x[1] in L for x in f)
        use_blocks = set()
        for blk in b.blocks:
            if blk.idx not in b.reachable or blk.cleanup:
                continue
            for s in blk.stmts:
                if s.kind != 'assign' or (s.bb, s.idx) in binders:
                    continue
                if (s.rv.place is not None and touches(s.rv.place)) or any(touches(o.place) for o in s.rv.ops):
                    use_blocks.add(blk.idx)
            t = blk.term
            if t.kind == 'call' and t is not mw[0] and any(touches(o.place) for o in t.args):
                use_blocks.add(blk.idx)
            if t.kind == 'switch' and t.discr is not None and touches(t.discr.place):
                use_blocks.add(blk.idx)
        if not b.returns:
            raise AnchorMissing('a return of edited_words')
        bad = [r for r in b.returns if not cfg.must_pass(b, mw[0].bb, r, via_blocks=use_blocks, from_succ=True) and r not in use_blocks]
        ctx.require(not bad, b, 'length-read|' + side,
                    'every path from match_words to the return reads %s_len (result %d): read in %d block(s)' % (side, field, len(use_blocks)),
                    'edited_words can return without ever reading %s_len (result %d of match_words): on that path the %s side cannot be '
                    '(0..%s_len) minus the matched indices (uses of the length are confined to blocks %s)' % (
                        side, field, side, side, sorted(use_blocks)))
